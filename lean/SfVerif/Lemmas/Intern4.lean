import SfVerif.Lemmas.Intern3
/-! Invariant of the interning state of a thread and its consequences: an id, once it resolves to a
    byte string, resolves to it after every further operation. -/
namespace SfVerif
open SfVerif.Gen

/-- `id` is not the reservation a copy is still pending for (an empty reservation cannot be changed) -/
def NotPending (st : IState) (id : Nat) : Prop :=
  ∀ (off n : Nat), st.pend = some (off, n) → st.s.spans[id]? = some (off, n) → n = 0

/-- `id` resolves to `bs`, and no pending copy can change that -/
def Resolves (st : IState) (id : Nat) (bs : Bytes) : Prop :=
  st.s.get? id = some bs ∧ NotPending st id

structure IInv (st : IState) : Prop where
  consec : Consec st.s
  pend : ∀ (off n : Nat), st.pend = some (off, n) → ∃ k : Nat, st.s.spans[k]? = some (off, n)
  cache : ∀ p ∈ st.cache, Resolves st p.2 p.1

theorem iinv_init : IInv ⟨{}, none, []⟩ :=
  ⟨consec_empty, fun _ _ h => (by cases h), fun _ h => (by cases h)⟩

theorem get?_lt {s : Interner} {id : Nat} {bs : Bytes} (h : s.get? id = some bs) : id < s.spans.size := by
  unfold Interner.get? at h
  cases hs : s.spans[id]? with
  | none => rw [hs] at h; cases h
  | some p =>
    have := Array.getElem?_eq_some_iff.1 hs
    exact this.1

theorem intern_eq (s : Interner) (bs : Bytes) :
    (s.intern bs).1 = (s.preallocate bs.size).1.copyAt s.buf.size bs ∧ (s.intern bs).2 = s.spans.size := ⟨rfl, rfl⟩

theorem intern_consec (s : Interner) (bs : Bytes) (h : Consec s) : Consec (s.intern bs).1 := by
  rw [(intern_eq s bs).1]
  apply copyAt_consec _ _ _ (preallocate_consec s bs.size h)
  rw [preallocate_buf]; simp

theorem intern_new (s : Interner) (bs : Bytes) (h : Consec s) : (s.intern bs).1.get? s.spans.size = some bs := by
  rw [(intern_eq s bs).1]
  exact get?_copyAt_self _ (preallocate_consec s bs.size h) _ _ _ (get?_preallocate_new s bs.size)

theorem intern_spans' (s : Interner) (bs : Bytes) : (s.intern bs).1.spans = s.spans.push (s.buf.size, bs.size) := rfl

/-- a whole intern call leaves every earlier id as it was -/
theorem intern_old (s : Interner) (bs : Bytes) (h : Consec s) (id : Nat) (hid : id < s.spans.size) :
    (s.intern bs).1.get? id = s.get? id := by
  rw [(intern_eq s bs).1]
  have hc := preallocate_consec s bs.size h
  rw [get?_copyAt_other _ hc s.spans.size s.buf.size bs.size bs (get?_preallocate_new s bs.size) (Nat.le_refl _) id]
  · exact get?_preallocate_old s bs.size id h hid
  · intro hs
    rw [preallocate_spans, Array.getElem?_push_lt hid] at hs
    have hs' : s.spans[id]? = some (s.buf.size, bs.size) := by rw [Array.getElem?_eq_getElem hid]; exact hs
    have := (h id _ _ hs').1
    omega

/-- resolution survives one step of the interning state -/
theorem resolves_step {st : IState} (hi : IInv st) {id : Nat} {bs : Bytes} (hr : Resolves st id bs) (op : Op) :
    Resolves (st.step op) id bs := by
  obtain ⟨hg, hnp⟩ := hr
  have hid := get?_lt hg
  cases op
  case intern b =>
    refine ⟨by simp only [IState.step]; rw [intern_old _ _ hi.consec _ hid]; exact hg, ?_⟩
    intro off n hp hs
    simp only [IState.step] at hp hs
    rw [intern_spans', Array.getElem?_push_lt hid] at hs
    exact hnp off n hp (by rw [Array.getElem?_eq_getElem hid]; exact hs)
  case internreq m =>
    refine ⟨by simp only [IState.step]; rw [get?_preallocate_old _ _ _ hi.consec hid]; exact hg, ?_⟩
    intro off n hp hs
    simp only [IState.step, Option.some.injEq, Prod.mk.injEq] at hp hs
    obtain ⟨h1, h2⟩ := hp
    rw [preallocate_spans, Array.getElem?_push_lt hid] at hs
    have hs' : st.s.spans[id]? = some (off, n) := by rw [Array.getElem?_eq_getElem hid]; exact hs
    have hb := (hi.consec id _ _ hs').1
    have : off = st.s.buf.size := h1.symm
    omega
  case interncopy b =>
    simp only [IState.step]
    cases hp : st.pend with
    | none => exact ⟨hg, hnp⟩
    | some p =>
      obtain ⟨off, n⟩ := p
      simp only []
      by_cases hb : b.size > n
      · rw [if_pos hb]; exact ⟨hg, hnp⟩
      · rw [if_neg hb]
        obtain ⟨k, hk⟩ := hi.pend off n hp
        refine ⟨?_, fun _ _ h => (by cases h)⟩
        simp only []
        rw [get?_copyAt_other _ hi.consec k off n b hk (by omega) id (hnp off n hp)]
        exact hg
  case cached b =>
    simp only [IState.step]
    cases hf : st.cache.find? (fun p => p.1 == b) with
    | some p => exact ⟨hg, hnp⟩
    | none =>
      refine ⟨by simp only []; rw [intern_old _ _ hi.consec _ hid]; exact hg, ?_⟩
      intro off n hp hs
      simp only [] at hp hs
      rw [intern_spans', Array.getElem?_push_lt hid] at hs
      exact hnp off n hp (by rw [Array.getElem?_eq_getElem hid]; exact hs)
  all_goals exact ⟨hg, hnp⟩

/-- a freshly returned id is not the pending reservation -/
theorem notPending_new (st : IState) (hi : IInv st) (b : Bytes) :
    NotPending ⟨(st.s.intern b).1, st.pend, st.cache⟩ st.s.spans.size := by
  intro off n hp hs
  simp only [] at hp hs
  rw [intern_spans'] at hs
  simp at hs
  obtain ⟨k, hk⟩ := hi.pend off n hp
  have := (hi.consec k off n hk).1
  omega

/-- the invariant survives one step -/
theorem iinv_step {st : IState} (hi : IInv st) (op : Op) : IInv (st.step op) := by
  have hcache : ∀ p ∈ st.cache, Resolves (st.step op) p.2 p.1 := fun p hp => resolves_step hi (hi.cache p hp) op
  cases op
  case intern b =>
    refine ⟨intern_consec _ _ hi.consec, ?_, hcache⟩
    intro off n hp
    simp only [IState.step] at hp
    obtain ⟨k, hk⟩ := hi.pend off n hp
    have hlt : k < st.s.spans.size := (Array.getElem?_eq_some_iff.1 hk).1
    refine ⟨k, ?_⟩
    simp only [IState.step]
    rw [intern_spans', Array.getElem?_push_lt hlt, ← Array.getElem?_eq_getElem hlt]; exact hk
  case internreq m =>
    refine ⟨preallocate_consec _ _ hi.consec, ?_, hcache⟩
    intro off n hp
    simp only [IState.step, Option.some.injEq, Prod.mk.injEq] at hp
    obtain ⟨h1, h2⟩ := hp
    refine ⟨st.s.spans.size, ?_⟩
    simp only [IState.step]
    rw [get?_preallocate_new, ← h2]
    simp [Interner.preallocate] at h1
    rw [h1]
  case interncopy b =>
    simp only [IState.step] at hcache ⊢
    cases hp : st.pend with
    | none => exact hi
    | some p =>
      obtain ⟨off, n⟩ := p
      simp only [hp] at hcache ⊢
      by_cases hb : b.size > n
      · rw [if_pos hb]; exact hi
      · rw [if_neg hb] at hcache ⊢
        obtain ⟨k, hk⟩ := hi.pend off n hp
        have hfit := (hi.consec k off n hk).1
        exact ⟨copyAt_consec _ _ _ hi.consec (by omega), fun _ _ h => (by cases h), hcache⟩
  case cached b =>
    simp only [IState.step] at hcache ⊢
    cases hf : st.cache.find? (fun p => p.1 == b) with
    | some p => exact hi
    | none =>
      simp only [hf] at hcache ⊢
      refine ⟨intern_consec _ _ hi.consec, ?_, ?_⟩
      · intro off n hp
        simp only [] at hp
        obtain ⟨k, hk⟩ := hi.pend off n hp
        have hlt : k < st.s.spans.size := (Array.getElem?_eq_some_iff.1 hk).1
        refine ⟨k, ?_⟩
        simp only []
        rw [intern_spans', Array.getElem?_push_lt hlt, ← Array.getElem?_eq_getElem hlt]; exact hk
      · intro p hp
        simp only [List.mem_cons] at hp
        rcases hp with rfl | hp
        · refine ⟨intern_new _ _ hi.consec, ?_⟩
          intro off n hpd hs
          exact notPending_new st hi b off n hpd hs
        · exact hcache p hp
  all_goals exact hi

/-- run a list of operations on the interning state -/
def IState.run (st : IState) : List Op → IState
  | [] => st
  | op :: rest => (st.step op).run rest

theorem iinv_run {st : IState} (hi : IInv st) (ops : List Op) : IInv (st.run ops) := by
  induction ops generalizing st with
  | nil => exact hi
  | cons op rest ih => exact ih (iinv_step hi op)

theorem resolves_run {st : IState} (hi : IInv st) {id : Nat} {bs : Bytes} (hr : Resolves st id bs) (ops : List Op) :
    Resolves (st.run ops) id bs := by
  induction ops generalizing st with
  | nil => exact hr
  | cons op rest ih => exact ih (iinv_step hi op) (resolves_step hi hr op)

/-- an entry of the id cache is never replaced -/
theorem cache_find_step (st : IState) (b : Bytes) (p : Bytes × Nat)
    (h : st.cache.find? (fun q => q.1 == b) = some p) (op : Op) :
    (st.step op).cache.find? (fun q => q.1 == b) = some p := by
  cases op
  case interncopy c =>
    simp only [IState.step]
    cases hp : st.pend with
    | none => exact h
    | some q => obtain ⟨off, n⟩ := q; simp only []; split <;> exact h
  case cached c =>
    simp only [IState.step]
    cases hf : st.cache.find? (fun q => q.1 == c) with
    | some q => exact h
    | none =>
      simp only []
      rw [List.find?_cons_of_neg]
      · exact h
      · simp only [beq_iff_eq]
        intro hcb
        rw [hcb] at hf
        rw [hf] at h; cases h
  all_goals exact h

theorem cache_find_run (st : IState) (b : Bytes) (p : Bytes × Nat)
    (h : st.cache.find? (fun q => q.1 == b) = some p) (ops : List Op) :
    (st.run ops).cache.find? (fun q => q.1 == b) = some p := by
  induction ops generalizing st with
  | nil => exact h
  | cons op rest ih => exact ih _ (cache_find_step st b p h op)

end SfVerif
