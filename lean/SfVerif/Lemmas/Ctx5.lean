import SfVerif.Spec.ReadRun
import SfVerif.Lemmas.Ctx4
/-! every history -/
namespace SfVerif
open SfVerif.Gen

theorem handleOK_handles {c : Ctx} {v : RVal} (h : v.handleOK c) :
    ∀ x ∈ (RAns.val v).handles, (c.nodeAt? x).isSome := by
  intro x hx
  cases v <;> simp [RAns.handles] at hx <;> (subst hx; exact h)

theorem kept_isSome {c c' : Ctx} (hk : HandlesKept c c') {h : Handle} (hs : (c.nodeAt? h).isSome) :
    (c'.nodeAt? h).isSome := by
  obtain ⟨m, hm⟩ := Option.isSome_iff_exists.mp hs
  obtain ⟨m', hm', _⟩ := hk h m hm
  rw [hm']; rfl

theorem lit_getAtIndex (c : Ctx) (d : NanBox.Decoded) (i : Nat) :
    c.getAtIndex (.lit d) i = (c, Spec.litAnswer d true ErrorCode_NotIndexable ErrorCode_ReadError) := by
  unfold Ctx.getAtIndex Ctx.dispatch Spec.litAnswer
  cases d with
  | ok r => cases r <;> simp
  | decodeError => rfl
  | panic => rfl

theorem lit_getKeyAtIndex (c : Ctx) (d : NanBox.Decoded) (i : Nat) :
    c.getKeyAtIndex (.lit d) i = (c, Spec.litAnswer d false ErrorCode_NotAnObject ErrorCode_ReadError) := by
  unfold Ctx.getKeyAtIndex Ctx.dispatch Spec.litAnswer
  cases d with
  | ok r => cases r <;> simp
  | decodeError => rfl
  | panic => rfl

theorem lit_getObjProp (c : Ctx) (d : NanBox.Decoded) (q : Bytes) :
    c.getObjProp (.lit d) q = (c, Spec.litAnswer d false ErrorCode_NotAnObject ErrorCode_DecodeError) := by
  unfold Ctx.getObjProp Ctx.dispatch Spec.litAnswer
  cases d with
  | ok r => cases r <;> simp
  | decodeError => rfl
  | panic => rfl

theorem litAnswer_err (d : NanBox.Decoded) (a : Bool) (w u : Nat) : ∃ code, Spec.litAnswer d a w u = .err code := by
  unfold Spec.litAnswer
  cases d with
  | ok r => cases r <;> simp <;> (split <;> simp)
  | decodeError => exact ⟨_, rfl⟩
  | panic => exact ⟨_, rfl⟩

theorem litAnswer_handles (d : NanBox.Decoded) (a : Bool) (w u : Nat) (c : Ctx) :
    ∀ x ∈ (RAns.val (Spec.litAnswer d a w u)).handles, (c.nodeAt? x).isSome := by
  intro x hx
  obtain ⟨code, hc⟩ := litAnswer_err d a w u
  rw [hc] at hx
  simp [RAns.handles] at hx

/-- one call: the answer is the specified one, and everything needed for the next call holds -/
theorem rstep_ok {c : Ctx} (hc : CInv c) (op : ROp)
    (hv : match op.handle? with | some h => (c.nodeAt? h).isSome | none => True) :
    (c.rstep op).2 = Spec.answer c.input c.roots.size op ∧
    CInv (c.rstep op).1 ∧ (c.rstep op).1.input = c.input ∧
    (c.rstep op).1.roots.size = op.nextRoots c.input c.roots.size ∧
    HandlesKept c (c.rstep op).1 ∧ (∀ x ∈ (c.rstep op).2.handles, ((c.rstep op).1.nodeAt? x).isSome) := by
  cases op with
  | root =>
    obtain ⟨h1, h2, h3, _, h5, h6, h7⟩ := inputGet_ok hc
    exact ⟨by simp only [Ctx.rstep, Spec.answer, h1], h2, h3, h5, h6, handleOK_handles h7⟩
  | atIndex s i =>
    cases s with
    | node h =>
      obtain ⟨m, hm⟩ := Option.isSome_iff_exists.mp hv
      obtain ⟨h1, h2⟩ := getAtIndex_node_ok hc hm i
      exact ⟨by simp only [Ctx.rstep, Spec.answer, h1], h2.inv, h2.input, h2.nroots, h2.kept, handleOK_handles h2.handle⟩
    | lit d =>
      have hstep : c.getAtIndex (.lit d) i = (c, Spec.litAnswer d true ErrorCode_NotIndexable ErrorCode_ReadError) := lit_getAtIndex c d i
      refine ⟨by simp only [Ctx.rstep, Spec.answer, hstep], by simp only [Ctx.rstep, hstep]; exact hc,
        by simp only [Ctx.rstep, hstep], by simp only [Ctx.rstep, hstep, ROp.nextRoots],
        by simp only [Ctx.rstep, hstep]; exact HandlesKept.refl c,
        by simp only [Ctx.rstep, hstep]; exact litAnswer_handles _ _ _ _ c⟩
  | keyAt s i =>
    cases s with
    | node h =>
      obtain ⟨m, hm⟩ := Option.isSome_iff_exists.mp hv
      obtain ⟨h1, h2⟩ := getKeyAtIndex_node_ok hc hm i
      exact ⟨by simp only [Ctx.rstep, Spec.answer, h1], h2.inv, h2.input, h2.nroots, h2.kept, handleOK_handles h2.handle⟩
    | lit d =>
      have hstep : c.getKeyAtIndex (.lit d) i = (c, Spec.litAnswer d false ErrorCode_NotAnObject ErrorCode_ReadError) := lit_getKeyAtIndex c d i
      refine ⟨by simp only [Ctx.rstep, Spec.answer, hstep], by simp only [Ctx.rstep, hstep]; exact hc,
        by simp only [Ctx.rstep, hstep], by simp only [Ctx.rstep, hstep, ROp.nextRoots],
        by simp only [Ctx.rstep, hstep]; exact HandlesKept.refl c,
        by simp only [Ctx.rstep, hstep]; exact litAnswer_handles _ _ _ _ c⟩
  | prop s q =>
    cases s with
    | node h =>
      obtain ⟨m, hm⟩ := Option.isSome_iff_exists.mp hv
      obtain ⟨h1, h2⟩ := getObjProp_node_ok hc hm q
      exact ⟨by simp only [Ctx.rstep, Spec.answer, h1], h2.inv, h2.input, h2.nroots, h2.kept, handleOK_handles h2.handle⟩
    | lit d =>
      have hstep : c.getObjProp (.lit d) q = (c, Spec.litAnswer d false ErrorCode_NotAnObject ErrorCode_DecodeError) := lit_getObjProp c d q
      refine ⟨by simp only [Ctx.rstep, Spec.answer, hstep], by simp only [Ctx.rstep, hstep]; exact hc,
        by simp only [Ctx.rstep, hstep], by simp only [Ctx.rstep, hstep, ROp.nextRoots],
        by simp only [Ctx.rstep, hstep]; exact HandlesKept.refl c,
        by simp only [Ctx.rstep, hstep]; exact litAnswer_handles _ _ _ _ c⟩
  | len s =>
    cases s with
    | node h =>
      obtain ⟨m, hm⟩ := Option.isSome_iff_exists.mp hv
      obtain ⟨h1, _⟩ := getValLen_node_ok hc hm
      exact ⟨by simp only [Ctx.rstep, Spec.answer, h1], hc, rfl, rfl, HandlesKept.refl c, by simp [Ctx.rstep, RAns.handles]⟩
    | lit d =>
      exact ⟨by simp only [Ctx.rstep, Spec.answer, Ctx.getValLen], hc, rfl, rfl, HandlesKept.refl c, by simp [Ctx.rstep, RAns.handles]⟩
  | strOff h =>
    obtain ⟨m, hm⟩ := Option.isSome_iff_exists.mp hv
    obtain ⟨_, h1⟩ := getValLen_node_ok hc hm
    exact ⟨by simp only [Ctx.rstep, Spec.answer, h1], hc, rfl, rfl, HandlesKept.refl c, by simp [Ctx.rstep, RAns.handles]⟩

/-- **every history**: any finite sequence of read calls on handles the client was given -/
theorem rrun_ok : ∀ (ops : List ROp) (c : Ctx) (issued : List Handle), CInv c →
    (∀ h ∈ issued, (c.nodeAt? h).isSome) → Spec.respects c.input c.roots.size issued ops →
    (c.rrun ops).1 = Spec.run c.input c.roots.size ops ∧ CInv (c.rrun ops).2 ∧ (c.rrun ops).2.input = c.input
  | [], c, issued, hc, _, _ => ⟨rfl, hc, rfl⟩
  | op :: ops, c, issued, hc, hiss, hresp => by
    simp only [Spec.respects] at hresp
    obtain ⟨huse, hrest⟩ := hresp
    have hv : match op.handle? with | some h => (c.nodeAt? h).isSome | none => True := by
      cases hh : op.handle? with
      | none => trivial
      | some h => rw [hh] at huse; exact hiss h huse
    obtain ⟨h1, h2, h3, h4, h5, h6⟩ := rstep_ok hc op hv
    have hiss' : ∀ h ∈ (Spec.answer c.input c.roots.size op).handles ++ issued, ((c.rstep op).1.nodeAt? h).isSome := by
      intro h hh
      rcases List.mem_append.mp hh with hh | hh
      · rw [← h1] at hh; exact h6 h hh
      · exact kept_isSome h5 (hiss h hh)
    have := rrun_ok ops (c.rstep op).1 _ h2 hiss' (by rw [h3, h4]; exact hrest)
    obtain ⟨g1, g2, g3⟩ := this
    simp only [Ctx.rrun, Spec.run]
    refine ⟨by rw [h1, g1, h3, h4], g2, by rw [g3, h3]⟩

end SfVerif
