import SfVerif.Lemmas.Codec2
/-! Decoding integers, strings and container headers as the writer encodes them. -/
namespace SfVerif

theorem markerOf_fixpos (k : Nat) (h : k < 128) : markerOf k = .imm (.int k) := by
  unfold markerOf; rw [if_pos (by omega), if_pos h]

theorem markerOf_fixneg (k : Nat) (h1 : 224 ≤ k) : markerOf k = .imm (.int (toSigned 8 k)) := by
  unfold markerOf; rw [if_neg (by omega), if_pos h1]

theorem markerOf_fixstr (k : Nat) (h1 : 160 ≤ k) (h2 : k < 192) : markerOf k = .strFix (k - 160) := by
  unfold markerOf; rw [if_pos h2, if_neg (by omega), if_neg (by omega), if_neg (by omega)]

theorem markerOf_fixarr (k : Nat) (h1 : 144 ≤ k) (h2 : k < 160) : markerOf k = .arrFix (k - 144) := by
  unfold markerOf; rw [if_pos (by omega), if_neg (by omega), if_neg (by omega), if_pos h2]

theorem markerOf_fixmap (k : Nat) (h1 : 128 ≤ k) (h2 : k < 144) : markerOf k = .mapFix (k - 128) := by
  unfold markerOf; rw [if_pos (by omega), if_neg (by omega), if_pos h2]

/-- **integers**: every value the writer's integer encoder can be given decodes to itself -/
theorem dec_sint (pre post : List UInt8) (z : Int) (f : Nat)
    (hlo : -9223372036854775808 ≤ z) (hhi : z < 18446744073709551616) :
    decodeAt (pre ++ encSint z ++ post).toArray (f + 1) pre.length =
      some (.int z, pre.length + (encSint z).length) := by
  unfold encSint
  by_cases hneg : z < 0
  · simp only [hneg, if_true]
    by_cases h1 : -32 ≤ z
    · simp only [h1, if_true]
      have hk : (z + ((2 ^ 8 : Nat) : Int)).toNat < 256 ∧ 224 ≤ (z + ((2 ^ 8 : Nat) : Int)).toNat := by
        simp only [Nat.reducePow]; omega
      have := dec_imm pre post (UInt8.ofNat (z + ((2 ^ 8 : Nat) : Int)).toNat) (.int z) f (by
        rw [u8_toNat_ofNat _ hk.1, markerOf_fixneg _ hk.2]
        simp only [toSigned, Nat.reducePow, Nat.reduceSub] at hk ⊢
        congr 2
        split <;> omega)
      simpa using this
    · simp only [h1, if_false]
      by_cases h2 : -128 ≤ z
      · simp only [h2, if_true]
        have := dec_sintN pre post 0xd0 1 z f (by simp) (by rfl) (by simp only [Nat.reduceMul, Nat.reduceSub, Nat.reducePow]; omega) hneg
        simpa [beBytes_length] using this
      · simp only [h2, if_false]
        by_cases h3 : -32768 ≤ z
        · simp only [h3, if_true]
          have := dec_sintN pre post 0xd1 2 z f (by simp) (by rfl) (by simp only [Nat.reduceMul, Nat.reduceSub, Nat.reducePow]; omega) hneg
          simpa [beBytes_length] using this
        · simp only [h3, if_false]
          by_cases h4 : -2147483648 ≤ z
          · simp only [h4, if_true]
            have := dec_sintN pre post 0xd2 4 z f (by simp) (by rfl) (by simp only [Nat.reduceMul, Nat.reduceSub, Nat.reducePow]; omega) hneg
            simpa [beBytes_length] using this
          · simp only [h4, if_false]
            have := dec_sintN pre post 0xd3 8 z f (by simp) (by rfl) (by simp only [Nat.reduceMul, Nat.reduceSub, Nat.reducePow]; omega) hneg
            simpa [beBytes_length] using this
  · simp only [hneg, if_false]
    have hz : ((z.toNat : Nat) : Int) = z := Int.toNat_of_nonneg (by omega)
    by_cases h1 : z.toNat < 128
    · simp only [h1, if_true]
      have := dec_imm pre post (UInt8.ofNat z.toNat) (.int z) f (by
        rw [u8_toNat_ofNat _ (by omega), markerOf_fixpos _ h1, hz])
      simpa using this
    · simp only [h1, if_false]
      by_cases h2 : z.toNat < 256
      · simp only [h2, if_true]
        have := dec_uint pre post 0xcc 1 z.toNat f (by simp) (by rfl) (by simpa using h2)
        rw [hz] at this; simpa [beBytes_length] using this
      · simp only [h2, if_false]
        by_cases h3 : z.toNat < 65536
        · simp only [h3, if_true]
          have := dec_uint pre post 0xcd 2 z.toNat f (by simp) (by rfl) (by simpa using h3)
          rw [hz] at this; simpa [beBytes_length] using this
        · simp only [h3, if_false]
          by_cases h4 : z.toNat < 4294967296
          · simp only [h4, if_true]
            have := dec_uint pre post 0xce 4 z.toNat f (by simp) (by rfl) (by simpa using h4)
            rw [hz] at this; simpa [beBytes_length] using this
          · simp only [h4, if_false]
            have := dec_uint pre post 0xcf 8 z.toNat f (by simp) (by rfl) (by simp only [Nat.reduceMul, Nat.reducePow]; omega)
            rw [hz] at this; simpa [beBytes_length] using this

/-- **strings**: header (any of the four widths) + bytes decode to exactly those bytes -/
theorem dec_str (pre post : List UInt8) (bs : Bytes) (f : Nat) (hs : bs.size < 2 ^ 32) :
    decodeAt (pre ++ encStr bs ++ post).toArray (f + 1) pre.length =
      some (.str bs, pre.length + (encStr bs).length) := by
  unfold encStr encStrLen
  have hm : bs.size % 2 ^ 32 = bs.size := Nat.mod_eq_of_lt hs
  simp only [hm]
  by_cases h1 : bs.size < 32
  · simp only [h1, if_true]
    rw [decodeAt]
    have hg : (pre ++ ([UInt8.ofNat (160 + bs.size)] ++ bs.toList) ++ post).toArray[pre.length]? =
        some (UInt8.ofNat (160 + bs.size)) := by simp
    rw [hg]
    simp only [u8_toNat_ofNat _ (show 160 + bs.size < 256 by omega),
      markerOf_fixstr _ (show 160 ≤ 160 + bs.size by omega) (show 160 + bs.size < 192 by omega)]
    have he : pre ++ ([UInt8.ofNat (160 + bs.size)] ++ bs.toList) ++ post =
        (pre ++ [UInt8.ofNat (160 + bs.size)]) ++ bs.toList ++ post := by simp
    rw [he]
    have := strDoc_mid (pre ++ [UInt8.ofNat (160 + bs.size)]) post bs
    simp only [List.length_append, List.length_cons, List.length_nil] at this
    rw [show 160 + bs.size - 160 = bs.size by omega, this]
    simp; omega
  · simp only [h1, if_false]
    by_cases h2 : bs.size < 256
    · simp only [h2, if_true]
      obtain ⟨g1, g2⟩ := dec_payload pre (bs.toList ++ post) 0xd9 1 bs.size f (by simp)
      rw [decodeAt]
      have he : pre ++ ((0xd9 : UInt8) :: beBytes 1 bs.size ++ bs.toList) ++ post =
          pre ++ ((0xd9 : UInt8) :: beBytes 1 bs.size) ++ (bs.toList ++ post) := by simp
      rw [he, g1]
      have hmk : markerOf (0xd9 : UInt8).toNat = .strN 1 := by rfl
      simp only [hmk, g2]
      rw [Nat.mod_eq_of_lt (by simpa using h2)]
      have he2 : pre ++ ((0xd9 : UInt8) :: beBytes 1 bs.size) ++ (bs.toList ++ post) =
          (pre ++ ((0xd9 : UInt8) :: beBytes 1 bs.size)) ++ bs.toList ++ post := by simp
      rw [he2]
      have := strDoc_mid (pre ++ ((0xd9 : UInt8) :: beBytes 1 bs.size)) post bs
      simp only [List.length_append, List.length_cons, beBytes_length] at this
      rw [show pre.length + 1 + 1 = pre.length + (1 + 1) by omega, this]
      simp [beBytes_length]; omega
    · simp only [h2, if_false]
      by_cases h3 : bs.size < 65536
      · simp only [h3, if_true]
        obtain ⟨g1, g2⟩ := dec_payload pre (bs.toList ++ post) 0xda 2 bs.size f (by simp)
        rw [decodeAt]
        have he : pre ++ ((0xda : UInt8) :: beBytes 2 bs.size ++ bs.toList) ++ post =
            pre ++ ((0xda : UInt8) :: beBytes 2 bs.size) ++ (bs.toList ++ post) := by simp
        rw [he, g1]
        have hmk : markerOf (0xda : UInt8).toNat = .strN 2 := by rfl
        simp only [hmk, g2]
        rw [Nat.mod_eq_of_lt (by simpa using h3)]
        have he2 : pre ++ ((0xda : UInt8) :: beBytes 2 bs.size) ++ (bs.toList ++ post) =
            (pre ++ ((0xda : UInt8) :: beBytes 2 bs.size)) ++ bs.toList ++ post := by simp
        rw [he2]
        have := strDoc_mid (pre ++ ((0xda : UInt8) :: beBytes 2 bs.size)) post bs
        simp only [List.length_append, List.length_cons, beBytes_length] at this
        rw [show pre.length + 1 + 2 = pre.length + (2 + 1) by omega, this]
        simp [beBytes_length]; omega
      · simp only [h3, if_false]
        obtain ⟨g1, g2⟩ := dec_payload pre (bs.toList ++ post) 0xdb 4 bs.size f (by simp)
        rw [decodeAt]
        have he : pre ++ ((0xdb : UInt8) :: beBytes 4 bs.size ++ bs.toList) ++ post =
            pre ++ ((0xdb : UInt8) :: beBytes 4 bs.size) ++ (bs.toList ++ post) := by simp
        rw [he, g1]
        have hmk : markerOf (0xdb : UInt8).toNat = .strN 4 := by rfl
        simp only [hmk, g2]
        rw [Nat.mod_eq_of_lt (by simpa using hs)]
        have he2 : pre ++ ((0xdb : UInt8) :: beBytes 4 bs.size) ++ (bs.toList ++ post) =
            (pre ++ ((0xdb : UInt8) :: beBytes 4 bs.size)) ++ bs.toList ++ post := by simp
        rw [he2]
        have := strDoc_mid (pre ++ ((0xdb : UInt8) :: beBytes 4 bs.size)) post bs
        simp only [List.length_append, List.length_cons, beBytes_length] at this
        rw [show pre.length + 1 + 4 = pre.length + (4 + 1) by omega, this]
        simp [beBytes_length]; omega

end SfVerif
