import SfVerif.Model.MsgPack
/-! facts about the header reader `readHdr` (= `LazyValueRef::new`) -/
namespace SfVerif

theorem getElem?_lt {b : Bytes} {pos : Nat} {m : UInt8} (h : b[pos]? = some m) : pos < b.size :=
  (Array.getElem?_eq_some_iff.mp h).1

theorem beRead_some {b : Bytes} {p n v : Nat} (h : beRead b p n = some v) : p + n ≤ b.size := by
  unfold beRead at h
  split at h
  · assumption
  · simp at h

theorem strHdr_spec {b : Bytes} {start len : Nat} {h : Hdr} (hh : strHdr b start len = some h) :
    h = .scalar (.str start len) (start + len) ∧ len ≤ b.size - start := by
  unfold strHdr at hh
  split at hh
  · simp at hh; exact ⟨hh.symm, by assumption⟩
  · simp at hh

theorem arrHdr_spec {b : Bytes} {body len : Nat} {h : Hdr} (hh : arrHdr b body len = some h) :
    h = .arr len body ∧ len ≤ b.size - body := by
  unfold arrHdr at hh
  split at hh
  · simp at hh; exact ⟨hh.symm, by assumption⟩
  · simp at hh

theorem mapHdr_spec {b : Bytes} {body len : Nat} {h : Hdr} (hh : mapHdr b body len = some h) :
    h = .map len body ∧ len ≤ (b.size - body) / 2 := by
  unfold mapHdr at hh
  split at hh
  · simp at hh; exact ⟨hh.symm, by assumption⟩
  · simp at hh

theorem numHdr_spec {b : Bytes} {p n : Nat} {conv : Nat → Nat} {h : Hdr} (hh : numHdr b p n conv = some h) :
    ∃ v, h = .scalar (.num v) (p + n) ∧ p + n ≤ b.size := by
  unfold numHdr at hh
  split at hh
  · simp at hh
  · rename_i v hv
    simp at hh
    exact ⟨conv v, hh.symm, beRead_some hv⟩

/-- what a successfully read header looks like, by marker class -/
inductive HdrShape (b : Bytes) (pos : Nat) : Hdr → Prop
  | imm (v : Scalar) (hstr : ∀ o l, v ≠ .str o l) : pos < b.size → HdrShape b pos (.scalar v (pos + 1))
  | num (v k : Nat) : pos + 1 + k ≤ b.size → HdrShape b pos (.scalar (.num v) (pos + 1 + k))
  | str (start len : Nat) : pos < start → len ≤ b.size - start → start ≤ b.size →
      HdrShape b pos (.scalar (.str start len) (start + len))
  | arr (body len : Nat) : pos < body → body ≤ b.size → len ≤ b.size - body → HdrShape b pos (.arr len body)
  | map (body len : Nat) : pos < body → body ≤ b.size → len ≤ (b.size - body) / 2 → HdrShape b pos (.map len body)

theorem hdrFix_shape {b : Bytes} {pos m : Nat} {h : Hdr} (hlt : pos < b.size)
    (hh : hdrFix b (pos + 1) m = some h) : HdrShape b pos h := by
  unfold hdrFix at hh
  split at hh
  · simp at hh; subst hh; exact HdrShape.num _ 0 (by omega)
  · split at hh
    · obtain ⟨rfl, hl⟩ := mapHdr_spec hh; exact HdrShape.map _ _ (by omega) (by omega) hl
    · split at hh
      · obtain ⟨rfl, hl⟩ := arrHdr_spec hh; exact HdrShape.arr _ _ (by omega) (by omega) hl
      · obtain ⟨rfl, hl⟩ := strHdr_spec hh; exact HdrShape.str _ _ (by omega) hl (by omega)

theorem hdrTagged_shape {b : Bytes} {pos m : Nat} {h : Hdr} (hlt : pos < b.size)
    (hh : hdrTagged b (pos + 1) m = some h) : HdrShape b pos h := by
  unfold hdrTagged at hh
  split at hh
  all_goals first
    | (simp at hh; subst hh; exact HdrShape.imm _ (by intros; simp) hlt)
    | (obtain ⟨v, rfl, hb⟩ := numHdr_spec hh; exact HdrShape.num v _ (by omega))
    | (split at hh
       · simp at hh
       · rename_i l hl
         have := beRead_some hl
         first
           | (obtain ⟨rfl, hl'⟩ := strHdr_spec hh; exact HdrShape.str _ _ (by omega) hl' (by omega))
           | (obtain ⟨rfl, hl'⟩ := arrHdr_spec hh; exact HdrShape.arr _ _ (by omega) (by omega) hl')
           | (obtain ⟨rfl, hl'⟩ := mapHdr_spec hh; exact HdrShape.map _ _ (by omega) (by omega) hl'))
    | (simp at hh)

theorem hdrOfMarker_shape {b : Bytes} {pos m : Nat} {h : Hdr} (hlt : pos < b.size)
    (hh : hdrOfMarker b (pos + 1) m = some h) : HdrShape b pos h := by
  unfold hdrOfMarker at hh
  split at hh
  · exact hdrFix_shape hlt hh
  · split at hh
    · simp at hh; subst hh; exact HdrShape.num _ 0 (by omega)
    · exact hdrTagged_shape hlt hh

theorem readHdr_shape {b : Bytes} {pos : Nat} {h : Hdr} (hh : readHdr b pos = some h) : HdrShape b pos h := by
  unfold readHdr at hh
  split at hh
  · simp at hh
  · rename_i mk hm
    exact hdrOfMarker_shape (getElem?_lt hm) hh

/-- a scalar header ends after its start and inside the input -/
theorem readHdr_scalar_gt {b : Bytes} {pos : Nat} {v : Scalar} {e : Nat}
    (h : readHdr b pos = some (.scalar v e)) : pos < e ∧ e ≤ b.size := by
  have := readHdr_shape h
  cases this <;> omega

theorem readHdr_arr_gt {b : Bytes} {pos l body : Nat} (h : readHdr b pos = some (.arr l body)) :
    pos < body ∧ body ≤ b.size ∧ l ≤ b.size - body := by
  have := readHdr_shape h
  cases this; omega

theorem readHdr_map_gt {b : Bytes} {pos l body : Nat} (h : readHdr b pos = some (.map l body)) :
    pos < body ∧ body ≤ b.size ∧ l ≤ (b.size - body) / 2 := by
  have := readHdr_shape h
  cases this; omega

/-- every string a header reports lies entirely inside the input -/
theorem readHdr_str_inside {b : Bytes} {pos off len e : Nat}
    (h : readHdr b pos = some (.scalar (.str off len) e)) : off + len ≤ b.size ∧ e = off + len ∧ pos < off := by
  have := readHdr_shape h
  cases this with
  | imm v hstr _ => exact absurd rfl (hstr off len)
  | str start len h1 h2 h3 => omega

end SfVerif
