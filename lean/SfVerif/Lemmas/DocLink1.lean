import SfVerif.Model.Doc
import SfVerif.Lemmas.Hdr
/-! The header reader (`readHdr`, what the lazy reader and the specification walk use) and the
    tree decoder (`decodeAt`) classify a marker byte the same way. -/
namespace SfVerif

/-- the header a marker class announces, cursor `q` just after the marker byte -/
def hdrByMarker (b : Bytes) (q : Nat) : Marker → Option Hdr
  | .imm .nil => some (.scalar .null q)
  | .imm (.bool x) => some (.scalar (.bool x) q)
  | .imm (.int z) => some (.scalar (.num (F64.ofInt z)) q)
  | .imm _ => none
  | .f32 => numHdr b q 4 F64.ofF32
  | .f64 => numHdr b q 8 id
  | .uint n => numHdr b q n F64.ofNat
  | .sint n => numHdr b q n (fun v => F64.ofInt (toSigned (8 * n) v))
  | .strFix len => strHdr b q len
  | .strN n => (match beRead b q n with | none => none | some l => strHdr b (q + n) l)
  | .arrFix len => arrHdr b q len
  | .arrN n => (match beRead b q n with | none => none | some l => arrHdr b (q + n) l)
  | .mapFix len => mapHdr b q len
  | .mapN n => (match beRead b q n with | none => none | some l => mapHdr b (q + n) l)
  | .bad => none

theorem ofInt_natCast (m : Nat) : F64.ofInt (m : Int) = F64.ofNat m := by
  unfold F64.ofInt
  rw [if_neg (by omega)]
  simp

theorem hdrTagged_eq (b : Bytes) (q m : Nat) : hdrTagged b q m = hdrByMarker b q (markerTagged m) := by
  unfold hdrTagged markerTagged
  split <;> first | rfl | (split <;> first | rfl | (exfalso; simp_all))

theorem hdrOfMarker_eq (b : Bytes) (q m : Nat) : hdrOfMarker b q m = hdrByMarker b q (markerOf m) := by
  unfold hdrOfMarker markerOf
  by_cases h1 : m < 0xc0
  · rw [if_pos h1, if_pos h1]
    unfold hdrFix
    by_cases h2 : m < 0x80
    · rw [if_pos h2, if_pos h2]; simp only [hdrByMarker, ofInt_natCast]
    · rw [if_neg h2, if_neg h2]
      by_cases h3 : m < 0x90
      · rw [if_pos h3, if_pos h3]; rfl
      · rw [if_neg h3, if_neg h3]
        by_cases h4 : m < 0xa0
        · rw [if_pos h4, if_pos h4]; rfl
        · rw [if_neg h4, if_neg h4]; rfl
  · rw [if_neg h1, if_neg h1]
    by_cases h5 : 0xe0 ≤ m
    · rw [if_pos h5, if_pos h5]; rfl
    · rw [if_neg h5, if_neg h5]; exact hdrTagged_eq b q m

theorem readHdr_eq (b : Bytes) (pos : Nat) :
    readHdr b pos = (match b[pos]? with | none => none | some mk => hdrByMarker b (pos + 1) (markerOf mk.toNat)) := by
  unfold readHdr
  cases b[pos]? with
  | none => rfl
  | some mk => exact hdrOfMarker_eq b (pos + 1) mk.toNat

end SfVerif
