import SfVerif.Spec.Path
import SfVerif.Lemmas.Ext3
/-! A handle valid in a correct partial view denotes a correct partial view of exactly the value
    the eager decoder finds along the same path. -/
namespace SfVerif

theorem fuel_ok (b : Bytes) (x : Nat) : b.size - x < eagerFuel b := by unfold eagerFuel; omega

theorem inv_child {b : Bytes} {pos : Nat} {n : Node} (hinv : Inv b pos n) {s : PStep} {c : Node}
    (hc : n.child? s = some c) : ∃ p, specChild b pos s = some p ∧ Inv b p c := by
  cases hinv with
  | scalar hh => cases s <;> simp [Node.child?] at hc
  | @arrClosed pos len body elems e hh hlen hpre =>
    cases s with
    | key i => simp [Node.child?] at hc
    | val i => simp [Node.child?] at hc
    | elem i =>
      simp only [Node.child?] at hc
      have hi := NodeList.get?_lt hc
      obtain ⟨c', p, e', hc', hd, _, hsk⟩ := pre_get hpre i hi
      rw [hc] at hc'; simp at hc'; subst hc'
      exact ⟨p, by simp only [specChild, hh]; rw [if_pos (by omega)]; exact hsk _ (fuel_ok b body), done_inv hd⟩
  | @arrOpened pos len body init last e hh hlen hpre hcomp hl =>
    cases s with
    | key i => simp [Node.child?] at hc
    | val i => simp [Node.child?] at hc
    | elem i =>
      simp only [Node.child?] at hc
      have hi := NodeList.get?_lt hc
      by_cases hlt : i < init.length
      · rw [NodeList.get?_snoc_lt _ _ _ hlt] at hc
        obtain ⟨c', p, e', hc', hd, _, hsk⟩ := pre_get hpre i hlt
        rw [hc] at hc'; simp at hc'; subst hc'
        exact ⟨p, by simp only [specChild, hh]; rw [if_pos (by omega)]; exact hsk _ (fuel_ok b body), done_inv hd⟩
      · have : i = init.length := by simp [NodeList.length] at hi; omega
        subst this
        rw [NodeList.get?_snoc_last] at hc; simp at hc; subst hc
        exact ⟨e, by simp only [specChild, hh]; rw [if_pos (by omega)]; exact (pre_facts hpre).2.2 _ (fuel_ok b body), hl⟩
  | @objClosed pos len body pairs e hh hlen hpre =>
    cases s with
    | elem i => simp [Node.child?] at hc
    | key i =>
      simp only [Node.child?] at hc
      cases hg : pairs.get? i with
      | none => rw [hg] at hc; cases hc
      | some x =>
        obtain ⟨ko, kl, v⟩ := x
        rw [hg] at hc; simp at hc; subst hc
        have hi := PairList.get?_lt hg
        obtain ⟨ko', kl', c', p, ke, e', hc', hk, hd, _, hsk⟩ := preP_get hpre i hi
        rw [hg] at hc'; simp at hc'; obtain ⟨rfl, rfl, rfl⟩ := hc'
        exact ⟨p, by simp only [specChild, specKeyPos, hh]; rw [if_pos (by omega)]; exact hsk _ (fuel_ok b body), Inv.scalar hk⟩
    | val i =>
      simp only [Node.child?] at hc
      cases hg : pairs.get? i with
      | none => rw [hg] at hc; cases hc
      | some x =>
        obtain ⟨ko, kl, v⟩ := x
        rw [hg] at hc; simp at hc; subst hc
        have hi := PairList.get?_lt hg
        obtain ⟨ko', kl', c', p, ke, e', hc', hk, hd, _, hsk⟩ := preP_get hpre i hi
        rw [hg] at hc'; simp at hc'; obtain ⟨rfl, rfl, rfl⟩ := hc'
        refine ⟨ke, ?_, done_inv hd⟩
        have : specKeyPos b pos i = some p := by
          simp only [specKeyPos, hh]; rw [if_pos (by omega)]; exact hsk _ (fuel_ok b body)
        simp only [specChild, this, hk]
  | @objOpened pos len body init s0 ko0 kl0 ke0 last hh hlen hpre hk0 hcomp hl =>
    have key_of : ∀ i ko kl v, (PairList.snoc init ko0 kl0 last).get? i = some (ko, kl, v) →
        ∃ p ke, specKeyPos b pos i = some p ∧ readHdr b p = some (.scalar (.str ko kl) ke) ∧ Inv b ke v := by
      intro i ko kl v hg
      have hi := PairList.get?_lt hg
      by_cases hlt : i < init.length
      · rw [PairList.get?_snoc_lt _ _ _ _ _ hlt] at hg
        obtain ⟨ko', kl', c', p, ke, e', hc', hk, hd, _, hsk⟩ := preP_get hpre i hlt
        rw [hg] at hc'; simp at hc'; obtain ⟨rfl, rfl, rfl⟩ := hc'
        exact ⟨p, ke, by simp only [specKeyPos, hh]; rw [if_pos (by omega)]; exact hsk _ (fuel_ok b body), hk, done_inv hd⟩
      · have : i = init.length := by simp [PairList.length] at hi; omega
        subst this
        rw [PairList.get?_snoc_last] at hg; simp at hg; obtain ⟨rfl, rfl, rfl⟩ := hg
        exact ⟨s0, ke0, by simp only [specKeyPos, hh]; rw [if_pos (by omega)]; exact (preP_facts hpre).2.2 _ (fuel_ok b body), hk0, hl⟩
    cases s with
    | elem i => simp [Node.child?] at hc
    | key i =>
      simp only [Node.child?] at hc
      cases hg : (PairList.snoc init ko0 kl0 last).get? i with
      | none => rw [hg] at hc; cases hc
      | some x =>
        obtain ⟨ko, kl, v⟩ := x
        rw [hg] at hc; simp at hc; subst hc
        obtain ⟨p, ke, h1, h2, _⟩ := key_of i ko kl v hg
        exact ⟨p, by simp only [specChild, h1], Inv.scalar h2⟩
    | val i =>
      simp only [Node.child?] at hc
      cases hg : (PairList.snoc init ko0 kl0 last).get? i with
      | none => rw [hg] at hc; cases hc
      | some x =>
        obtain ⟨ko, kl, v⟩ := x
        rw [hg] at hc; simp at hc; subst hc
        obtain ⟨p, ke, h1, h2, h3⟩ := key_of i ko kl v hg
        exact ⟨ke, by simp only [specChild, h1, h2], h3⟩

/-- **a handle denotes the eager decoder's value**: a path valid in a correct partial view of
    the value at `pos` is a path the eager decoder can follow, and the node it denotes is a
    correct partial view of the value found there -/
theorem inv_path {b : Bytes} : ∀ (path : Path) {pos : Nat} {n m : Node}, Inv b pos n →
    n.getPath? path = some m → ∃ p, specPath b pos path = some p ∧ Inv b p m
  | [], pos, n, m, hinv, h => by
    simp only [Node.getPath?, Option.some.injEq] at h; subst h
    exact ⟨pos, rfl, hinv⟩
  | s :: rest, pos, n, m, hinv, h => by
    simp only [Node.getPath?] at h
    cases hc : n.child? s with
    | none => rw [hc] at h; cases h
    | some c =>
      rw [hc] at h
      obtain ⟨p, hp, hci⟩ := inv_child hinv hc
      obtain ⟨p', hp', hmi⟩ := inv_path rest hci h
      exact ⟨p', by simp only [specPath, hp, hp'], hmi⟩

end SfVerif
