import SfVerif.Lemmas.Lazy6
/-! `get_object_property` from any correct partial view: the processed prefix is searched first
    (first match first), then the loop continues the same walk. -/
namespace SfVerif

theorem objPropLoop_zero (b : Bytes) (f len : Nat) (q : Bytes) (pairs : PairList) (e : Nat) :
    objPropLoop b f len q pairs e 0 = (.obj len pairs e, .missing) := by rw [objPropLoop]

theorem PairList.findKey_snoc_some {b q : Bytes} {init : PairList} {ko kl : Nat} {n : Node} {i : Nat}
    (h : init.findKey b q = some i) : (PairList.snoc init ko kl n).findKey b q = some i := by
  simp [PairList.findKey, h]

theorem PairList.findKey_snoc_here {b q : Bytes} {init : PairList} {ko kl : Nat} {n : Node}
    (h : init.findKey b q = none) (hk : keyEq b ko kl q = true) :
    (PairList.snoc init ko kl n).findKey b q = some init.length := by
  simp [PairList.findKey, h, hk]

theorem PairList.findKey_snoc_miss {b q : Bytes} {init : PairList} {ko kl : Nat} {n : Node}
    (h : init.findKey b q = none) (hk : keyEq b ko kl q = false) :
    (PairList.snoc init ko kl n).findKey b q = none := by
  simp [PairList.findKey, h, hk]

/-- the specification walked over a complete prefix: either the first processed match, or the
    walk continues where the prefix ends -/
theorem spec_over_prefix {b : Bytes} {f : Nat} {q : Bytes} {p0 : Nat} {pairs : PairList} {cur : Nat}
    (h : PreP b p0 pairs cur) (hf : b.size - p0 < f) :
    ∀ r, (∀ i, pairs.findKey b q = some i →
            ∃ ko kl c ke e', pairs.get? i = some (ko, kl, c) ∧ Done b ke c e' ∧
              specProp b f q (pairs.length + r) p0 0 = .found i ke) ∧
         (pairs.findKey b q = none →
            specProp b f q (pairs.length + r) p0 0 =
              (if r = 0 then .missing else specProp b f q r cur pairs.length)) := by
  refine PreP.rec
    (motive_1 := fun _ _ _ _ => True)
    (motive_2 := fun _ _ _ _ => True)
    (motive_3 := fun p0 pairs cur _ => b.size - p0 < f → ∀ r,
        (∀ i, pairs.findKey b q = some i →
            ∃ ko kl c ke e', pairs.get? i = some (ko, kl, c) ∧ Done b ke c e' ∧
              specProp b f q (pairs.length + r) p0 0 = .found i ke) ∧
         (pairs.findKey b q = none →
            specProp b f q (pairs.length + r) p0 0 =
              (if r = 0 then .missing else specProp b f q r cur pairs.length)))
    ?_ ?_ ?_ ?_ ?_ ?_ ?_ h hf
  · intros; trivial
  · intros; trivial
  · intros; trivial
  · intros; trivial
  · intros; trivial
  · intro p0 _ r
    refine ⟨fun i hi => by simp [PairList.findKey] at hi, fun _ => ?_⟩
    by_cases hr : r = 0
    · subst hr; simp [PairList.length, specProp_zero]
    · simp [PairList.length, hr]
  · intro p0 init s ko kl ke n s' hinit hk hdone ih _ hf' r
    have hsf := preP_facts hinit
    have hke := readHdr_scalar_gt hk
    obtain ⟨hv0, hv⟩ := inv_hdr (done_inv hdone)
    have hdf := done_facts hdone
    have hlen : (PairList.snoc init ko kl n).length + r = init.length + (r + 1) := by
      simp [PairList.length]; omega
    obtain ⟨ihS, ihN⟩ := ih hf' (r + 1)
    cases hfi : init.findKey b q with
    | some i0 =>
      obtain ⟨ko', kl', c, ke', e', hc, hd, hsp⟩ := ihS i0 hfi
      have hlt : i0 < init.length := by
        -- a found index is inside the prefix: `get?` returned some
        unfold PairList.get? at hc
        split at hc
        · assumption
        · simp at hc
      refine ⟨fun i hi => ?_, fun hn => ?_⟩
      · rw [PairList.findKey_snoc_some hfi] at hi; simp at hi; subst hi
        exact ⟨ko', kl', c, ke', e', by rw [PairList.get?_snoc_lt _ _ _ _ _ hlt]; exact hc, hd, by rw [hlen]; exact hsp⟩
      · rw [PairList.findKey_snoc_some hfi] at hn; simp at hn
    | none =>
      have hcont := ihN hfi
      simp only [Nat.succ_ne_zero, if_false] at hcont
      by_cases hmq : keyEq b ko kl q = true
      · refine ⟨fun i hi => ?_, fun hn => ?_⟩
        · rw [PairList.findKey_snoc_here hfi hmq] at hi; simp at hi; subst hi
          exact ⟨ko, kl, n, ke, s', PairList.get?_snoc_last init ko kl n, hdone,
            by rw [hlen, hcont]; exact specProp_found hk hv hmq⟩
        · rw [PairList.findKey_snoc_here hfi hmq] at hn; simp at hn
      · have hmq' : keyEq b ko kl q = false := by simpa using hmq
        refine ⟨fun i hi => ?_, fun _ => ?_⟩
        · rw [PairList.findKey_snoc_miss hfi hmq'] at hi; simp at hi
        · rw [hlen, hcont]
          by_cases hr : r = 0
          · subst hr; simp only [if_true]; exact specProp_last hk hv hmq'
          · simp only [hr, if_false]
            obtain ⟨r', rfl⟩ : ∃ r', r = r' + 1 := ⟨r - 1, by omega⟩
            have hs : skip b f ke = some s' := hdf.2.2 f (by omega)
            rw [specProp_next hk hv hmq' hs]
            simp [PairList.length]

/-- **`get_object_property(q)` refines `specProp`**: from any correct partial view of the object,
    when the specification finds pair `i` the call returns it (and the stored node is a correct
    view of the value at the specification's offset); when the specification says "missing" the
    call answers `null`; either way a correct partial view is left behind -/
theorem objProp_ok {b : Bytes} {f pos len body : Nat} {q : Bytes} (hh : readHdr b pos = some (.map len body))
    (hf : b.size - body < f) {pairs : PairList} {e : Nat} (hinv : Inv b pos (.obj len pairs e))
    (hne : specProp b f q len body 0 ≠ .err) :
    ∃ pairs' e', Inv b pos (.obj len pairs' e') ∧
      ((∃ i ke, specProp b f q len body 0 = .found i ke ∧
          objProp b f len pairs e q = (.obj len pairs' e', .at i) ∧
          ∃ ko kl c, pairs'.get? i = some (ko, kl, c) ∧ Inv b ke c) ∨
       (specProp b f q len body 0 = .missing ∧ objProp b f len pairs e q = (.obj len pairs' e', .missing))) := by
  have hbody := (readHdr_map_gt hh).2.1
  have hst := inv_objSt hh hinv
  unfold objProp
  rcases hst with ⟨hpre, hle⟩ | ⟨init, s, ko0, kl0, last, rfl, hpre, hk0, hle, hc, hl⟩
  · -- every processed pair is complete
    obtain ⟨hS, hN⟩ := spec_over_prefix (q := q) hpre hf (len - pairs.length)
    rw [show pairs.length + (len - pairs.length) = len by omega] at hS hN
    cases hfk : pairs.findKey b q with
    | some i =>
      obtain ⟨ko, kl, c, ke, e', hc, hd, hsp⟩ := hS i hfk
      exact ⟨pairs, e, hinv, Or.inl ⟨i, ke, hsp, rfl, ko, kl, c, hc, done_inv hd⟩⟩
    | none =>
      have hsp := hN hfk
      by_cases hr : len - pairs.length = 0
      · rw [if_pos hr] at hsp
        refine ⟨pairs, e, hinv, Or.inr ⟨hsp, ?_⟩⟩
        simp only [hr, objPropLoop_zero]
      · rw [if_neg hr] at hsp
        obtain ⟨k, hk⟩ : ∃ k, len - pairs.length = k + 1 := ⟨len - pairs.length - 1, by omega⟩
        rw [hk] at hsp ⊢
        have hcur := (preP_facts hpre).2.2 f hf
        obtain ⟨pairs', e', hst', hres⟩ :=
          objPropLoop_ok (q := q) hbody hf k pairs e e (Or.inl ⟨hpre, hle⟩) (by omega) hcur (by rw [← hsp]; exact hne)
        refine ⟨pairs', e', objSt_inv hh hst', ?_⟩
        rw [hsp]
        exact hres
  · -- the last processed pair's value is an unfinished container at `e`
    obtain ⟨hS, hN⟩ := spec_over_prefix (q := q) hpre hf (len - init.length)
    rw [show init.length + (len - init.length) = len by omega] at hS hN
    obtain ⟨hv0, hv⟩ := inv_hdr hl
    have hke := readHdr_scalar_gt hk0
    have hsf := preP_facts hpre
    cases hfi : init.findKey b q with
    | some i0 =>
      obtain ⟨ko, kl, c, ke, e', hcg, hd, hsp⟩ := hS i0 hfi
      have hlt : i0 < init.length := by
        unfold PairList.get? at hcg
        split at hcg
        · assumption
        · simp at hcg
      refine ⟨_, e, hinv, Or.inl ⟨i0, ke, hsp, ?_, ko, kl, c, ?_, done_inv hd⟩⟩
      · simp only [PairList.findKey_snoc_some hfi]
      · rw [PairList.get?_snoc_lt _ _ _ _ _ hlt]; exact hcg
    | none =>
      have hsp := hN hfi
      have hr : ¬ (len - init.length = 0) := by omega
      rw [if_neg hr] at hsp
      obtain ⟨k, hk⟩ : ∃ k, len - init.length = k + 1 := ⟨len - init.length - 1, by omega⟩
      rw [hk] at hsp
      by_cases hmq : keyEq b ko0 kl0 q = true
      · refine ⟨_, e, hinv, Or.inl ⟨init.length, e, ?_, ?_, ko0, kl0, last, PairList.get?_snoc_last init ko0 kl0 last, hl⟩⟩
        · rw [hsp]; exact specProp_found hk0 hv hmq
        · simp only [PairList.findKey_snoc_here hfi hmq]
      · have hmq' : keyEq b ko0 kl0 q = false := by simpa using hmq
        simp only [PairList.findKey_snoc_miss hfi hmq']
        cases k with
        | zero =>
          have hlen : len - (PairList.snoc init ko0 kl0 last).length = 0 := by simp [PairList.length]; omega
          refine ⟨_, e, hinv, Or.inr ⟨by rw [hsp]; exact specProp_last hk0 hv hmq', ?_⟩⟩
          rw [hlen, objPropLoop_zero]
        | succ k =>
          rw [hsp] at hne
          obtain ⟨ko, kl, ke, hd, hk', hv', hskip⟩ := specProp_ne_err hne
          rw [hk0] at hk'; simp at hk'; obtain ⟨⟨rfl, rfl⟩, rfl⟩ := hk'
          obtain ⟨z, hz⟩ := hskip hmq' (by omega)
          have hnext : specProp b f q (k+2) s init.length = specProp b f q (k+1) z (init.length + 1) :=
            specProp_next hk0 hv hmq' hz
          have hcur : skipPairs b f (init.length + 1) body = some z :=
            skipPairs_snoc _ _ _ _ _ _ _ (hsf.2.2 f hf) hk0 hz
          have hlen : len - (PairList.snoc init ko0 kl0 last).length = k + 1 := by simp [PairList.length]; omega
          have hlen2 : (PairList.snoc init ko0 kl0 last).length = init.length + 1 := by simp [PairList.length]
          rw [hnext] at hne
          obtain ⟨pairs', e', hst', hres⟩ :=
            objPropLoop_ok (q := q) hbody hf k (.snoc init ko0 kl0 last) e z
              (Or.inr ⟨init, s, ko0, kl0, last, rfl, hpre, hk0, hle, hc, hl⟩) (by rw [hlen2]; omega)
              (by rw [hlen2]; exact hcur) (by rw [hlen2]; exact hne)
          refine ⟨pairs', e', objSt_inv hh hst', ?_⟩
          rw [hsp, hnext, hlen]
          rw [hlen2] at hres
          exact hres

end SfVerif
