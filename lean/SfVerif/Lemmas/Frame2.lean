import SfVerif.Lemmas.Frame1
/-! The log ring at the level of a whole thread: apart from a log call and the start of an
    invocation, no protocol operation touches it. -/
namespace SfVerif
open SfVerif.Gen

/-- operations that start an invocation afresh (the typed conveniences reinitialise the context) -/
def Op.restarts : Op → Bool
  | .init _ | .deint _ _ | .de _ _ | .serrt _ _ => true
  | _ => false

/-- the two halves of a log call issued separately (plan request, then the copy) -/
def Op.splitLog : Op → Bool
  | .logreq _ | .logcopy _ _ => true
  | _ => false

/-- what one operation does to the log ring -/
def logsAfter (l : Logs) : Op → Logs
  | .init _ | .deint _ _ | .de _ _ | .serrt _ _ => Logs.init LOG_CAPACITY
  | .log len seed => Logs.log LOG_CAPACITY l (msgBytes len seed).toList
  | _ => l

namespace Thread

theorem fmtVal_ctx (w : Nat) (t : Thread) (v : RVal) : (fmtVal w t v).1.ctx = t.ctx := by
  cases v <;> simp only [fmtVal] <;> first | rfl | (unfold register; split <;> rfl)

theorem step_logs (w : Nat) (t : Thread) (op : Op) (h : op.splitLog = false) :
    (t.step w op).1.ctx.logs = logsAfter t.ctx.logs op := by
  cases op
  case bad => rfl
  case width n => rfl
  case init bs => rfl
  case root =>
    simp only [step, logsAfter, fmtVal_ctx]
    exact (Ctx.inputGet_keeps _).2.2.1
  case prop s q =>
    simp only [step, logsAfter]
    split
    · rfl
    · simp only [fmtVal_ctx]; exact (Ctx.getObjProp_keeps _ _ _).2.2.1
  case iprop s id =>
    simp only [step, logsAfter]
    split
    · rfl
    · split
      · rfl
      · rename_i r hr
        simp only [fmtVal_ctx]; exact (Ctx.getInternedObjProp_keeps _ _ _ _ hr).2.2.1
  case idx s i =>
    simp only [step, logsAfter]
    split
    · rfl
    · simp only [fmtVal_ctx]; exact (Ctx.getAtIndex_keeps _ _ _).2.2.1
  case key s i =>
    simp only [step, logsAfter]
    split
    · rfl
    · simp only [fmtVal_ctx]; exact (Ctx.getKeyAtIndex_keeps _ _ _).2.2.1
  case len s => simp only [step, logsAfter]; split <;> rfl
  case str s =>
    simp only [step, logsAfter]
    split
    · rfl
    · split
      · split <;> rfl
      · rfl
  case akind s => simp only [step, logsAfter]; split <;> rfl
  case alen s => simp only [step, logsAfter]; split <;> rfl
  case astr s =>
    simp only [step, logsAfter]
    split
    · rfl
    · split
      · split <;> rfl
      · rfl
      · rfl
  case akey s i =>
    simp only [step, logsAfter]
    split
    · rfl
    · split
      · split
        · split
          · exact (Ctx.getKeyAtIndex_keeps _ _ _).2.2.1
          · exact (Ctx.getKeyAtIndex_keeps _ _ _).2.2.1
        · exact (Ctx.getKeyAtIndex_keeps _ _ _).2.2.1
      · rfl
  case w api tok =>
    cases tok
    case bool n => simp only [step, logsAfter]; split <;> rfl
    case null => rfl
    case i32 z => rfl
    case f64 b => rfl
    case str bs => rfl
    case alloc n => rfl
    case copy bs =>
      simp only [step, logsAfter]
      split
      · rfl
      · split <;> rfl
    case istr id =>
      simp only [step, logsAfter]
      split <;> rfl
    case obj n => rfl
    case endobj => rfl
    case arr n => rfl
    case endarr => rfl
  case fin => rfl
  case outq => rfl
  case outdoc => rfl
  case log len seed =>
    simp only [step, logsAfter, Logs.log]
    have : (msgBytes len seed).toList.length = len := by simp [msgBytes]
    rw [this]
  case logreq n => simp [Op.splitLog] at h
  case logcopy len seed => simp [Op.splitLog] at h
  case logsq => rfl
  case intern bs => rfl
  case internreq n => rfl
  case interncopy bs =>
    simp only [step, logsAfter]
    split
    · rfl
    · split <;> rfl
  case cached bs =>
    simp only [step, logsAfter]
    split <;> rfl
  case boxPtr k p l => rfl
  case boxBool b => rfl
  case boxNull => rfl
  case boxErr c => simp only [step, logsAfter]; split <;> rfl
  case boxNum b => simp only [step, logsAfter]; split <;> rfl
  case unbox v => rfl
  case maxlen => rfl
  case deint ty b =>
    simp only [step, logsAfter]
    exact (deRoot_keeps _ _).2.2.1
  case de ty d =>
    simp only [step, logsAfter]
    exact (deRoot_keeps _ _).2.2.1
  case serrt v d =>
    simp only [step, logsAfter]
    split
    · simp only []
      exact (deRoot_keeps _ _).2.2.1
    · rfl

end Thread
end SfVerif
