import SfVerif.Lemmas.Language2
import SfVerif.Lemmas.Codec4
import SfVerif.Model.Typed
/-! Payload-carrying completeness: a list of api-level write calls whose token string is the token
    string of a tree *is* the serialisation of a value tree (the payloads are read off the calls). -/
namespace SfVerif
open SfVerif.Gen

/-- the grammar token of an api-level write call -/
def AOp.tok : AOp → Tok
  | .w op => op.tok
  | .str _ => .string

/-- calls whose payloads the encoders accept (what the real entry points can be handed), strings
    written whole (not as a bare allocation) -/
def AOp.wf : AOp → Bool
  | .w (.i32 z) => decide (-9223372036854775808 ≤ z) && decide (z < 18446744073709551616)
  | .w (.f64 b) => decide (b < 2 ^ 64)
  | .w (.strAlloc _) => false
  | .w (.obj n) => decide (n < 2 ^ 32)
  | .w (.arr n) => decide (n < 2 ^ 32)
  | .w _ => true
  | .str bs => decide (bs.size < 2 ^ 32)

theorem serList_append (a b : List TVal) : TVal.serList (a ++ b) = TVal.serList a ++ TVal.serList b := by
  induction a with
  | nil => simp [TVal.serList]
  | cons x xs ih => simp [TVal.serList, ih]

theorem serPairs_append (a b : List (Bytes × TVal)) : TVal.serPairs (a ++ b) = TVal.serPairs a ++ TVal.serPairs b := by
  induction a with
  | nil => simp [TVal.serPairs]
  | cons x xs ih => obtain ⟨k, v⟩ := x; simp [TVal.serPairs, ih]

/-- a single call with a scalar / string token is the serialisation of a scalar / string value -/
theorem ser_of_scalar (op : AOp) (hw : op.wf = true) (ht : op.tok = .scalar) :
    ∃ v : TVal, v.ser = [op] ∧ wfV v = true := by
  cases op with
  | str bs => simp [AOp.tok] at ht
  | w o =>
    cases o with
    | bool b => exact ⟨.bool b, rfl, rfl⟩
    | null => exact ⟨.unit, rfl, rfl⟩
    | i32 z => exact ⟨.int z, rfl, by simpa [AOp.wf, wfV] using hw⟩
    | f64 x => exact ⟨.f64 x, rfl, by simpa [AOp.wf, wfV] using hw⟩
    | strAlloc n => simp [AOp.wf] at hw
    | obj n => simp [AOp.tok, WOp.tok] at ht
    | endObj => simp [AOp.tok, WOp.tok] at ht
    | arr n => simp [AOp.tok, WOp.tok] at ht
    | endArr => simp [AOp.tok, WOp.tok] at ht

theorem str_of_string (op : AOp) (hw : op.wf = true) (ht : op.tok = .string) :
    ∃ bs : Bytes, op = .str bs ∧ bs.size < 2 ^ 32 := by
  cases op with
  | str bs => exact ⟨bs, rfl, by simpa [AOp.wf] using hw⟩
  | w o => cases o <;> simp [AOp.tok, WOp.tok, AOp.wf] at ht hw

mutual
theorem ser_of_toks : ∀ (t : Tree) (ops : List AOp), (∀ op ∈ ops, op.wf = true) → ops.map AOp.tok = t.toks →
    ∃ v : TVal, v.ser = ops ∧ wfV v = true
  | .scalar, ops, hw, h => by
    simp only [Tree.toks] at h
    obtain ⟨op, rest, rfl, h1, h2⟩ := List.map_eq_cons_iff.1 h
    rw [List.map_eq_nil_iff] at h2; subst h2
    exact ser_of_scalar op (hw op List.mem_cons_self) h1
  | .string, ops, hw, h => by
    simp only [Tree.toks] at h
    obtain ⟨op, rest, rfl, h1, h2⟩ := List.map_eq_cons_iff.1 h
    rw [List.map_eq_nil_iff] at h2; subst h2
    obtain ⟨bs, rfl, hb⟩ := str_of_string op (hw op List.mem_cons_self) h1
    exact ⟨.str bs, rfl, by simp [wfV, hb]⟩
  | .obj vs, ops, hw, h => by
    simp only [Tree.toks] at h
    obtain ⟨first, rest, rfl, hf, hr⟩ := List.map_eq_cons_iff.1 h
    obtain ⟨mid, lst, rfl, hmid, hlst⟩ := List.map_eq_append_iff.1 hr
    obtain ⟨l, lrest, rfl, hlst, hnil⟩ := List.map_eq_cons_iff.1 hlst
    rw [List.map_eq_nil_iff] at hnil; subst hnil
    · obtain ⟨ps, hps, hlen, hwf⟩ := pairs_of_toks vs mid
        (fun op hop => hw op (List.mem_cons_of_mem _ (List.mem_append_left _ hop))) hmid
      have hfw := hw first List.mem_cons_self
      have hlw := hw l (List.mem_cons_of_mem _ (List.mem_append_right _ List.mem_cons_self))
      -- the first call is `new_object vs.length`, the last `finish_object`
      have hfirst : first = .w (.obj vs.length) := by
        cases first with
        | str bs => simp [AOp.tok] at hf
        | w o => cases o <;> simp [AOp.tok, WOp.tok] at hf ⊢; exact hf
      have hlast : l = .w .endObj := by
        cases l with
        | str bs => simp [AOp.tok] at hlst
        | w o => cases o <;> simp [AOp.tok, WOp.tok] at hlst ⊢
      subst hfirst; subst hlast
      refine ⟨.map ps, ?_, ?_⟩
      · simp [TVal.ser, hps, hlen]
      · have : vs.length < 2 ^ 32 := by simpa [AOp.wf] using hfw
        simp [wfV, hlen, this, hwf]
  | .arr xs, ops, hw, h => by
    simp only [Tree.toks] at h
    obtain ⟨first, rest, rfl, hf, hr⟩ := List.map_eq_cons_iff.1 h
    obtain ⟨mid, lst, rfl, hmid, hlst⟩ := List.map_eq_append_iff.1 hr
    obtain ⟨l, lrest, rfl, hlst, hnil⟩ := List.map_eq_cons_iff.1 hlst
    rw [List.map_eq_nil_iff] at hnil; subst hnil
    · obtain ⟨ys, hys, hlen, hwf⟩ := elems_of_toks xs mid
        (fun op hop => hw op (List.mem_cons_of_mem _ (List.mem_append_left _ hop))) hmid
      have hfw := hw first List.mem_cons_self
      have hfirst : first = .w (.arr xs.length) := by
        cases first with
        | str bs => simp [AOp.tok] at hf
        | w o => cases o <;> simp [AOp.tok, WOp.tok] at hf ⊢; exact hf
      have hlast : l = .w .endArr := by
        cases l with
        | str bs => simp [AOp.tok] at hlst
        | w o => cases o <;> simp [AOp.tok, WOp.tok] at hlst ⊢
      subst hfirst; subst hlast
      refine ⟨.seq ys, ?_, ?_⟩
      · simp [TVal.ser, hys, hlen]
      · have : xs.length < 2 ^ 32 := by simpa [AOp.wf] using hfw
        simp [wfV, hlen, this, hwf]

theorem pairs_of_toks : ∀ (vs : List Tree) (ops : List AOp), (∀ op ∈ ops, op.wf = true) → ops.map AOp.tok = Tree.pairToks vs →
    ∃ ps : List (Bytes × TVal), TVal.serPairs ps = ops ∧ ps.length = vs.length ∧ wfPairs ps = true
  | [], ops, _, h => by
    simp only [Tree.pairToks, List.map_eq_nil_iff] at h
    subst h
    exact ⟨[], rfl, rfl, rfl⟩
  | v :: vs, ops, hw, h => by
    simp only [Tree.pairToks] at h
    obtain ⟨kop, rest, rfl, hk, hr⟩ := List.map_eq_cons_iff.1 h
    obtain ⟨vops, more, rfl, hv, hmore⟩ := List.map_eq_append_iff.1 hr
    obtain ⟨kb, rfl, hkb⟩ := str_of_string kop (hw kop List.mem_cons_self) hk
    obtain ⟨tv, htv, hwv⟩ := ser_of_toks v vops
      (fun op hop => hw op (List.mem_cons_of_mem _ (List.mem_append_left _ hop))) hv
    obtain ⟨ps, hps, hlen, hwp⟩ := pairs_of_toks vs more
      (fun op hop => hw op (List.mem_cons_of_mem _ (List.mem_append_right _ hop))) hmore
    refine ⟨(kb, tv) :: ps, ?_, by simp [hlen], ?_⟩
    · simp [TVal.serPairs, htv, hps]
    · simp [wfPairs, hkb, hwv, hwp]

theorem elems_of_toks : ∀ (xs : List Tree) (ops : List AOp), (∀ op ∈ ops, op.wf = true) → ops.map AOp.tok = Tree.elemToks xs →
    ∃ ys : List TVal, TVal.serList ys = ops ∧ ys.length = xs.length ∧ wfList ys = true
  | [], ops, _, h => by
    simp only [Tree.elemToks, List.map_eq_nil_iff] at h
    subst h
    exact ⟨[], rfl, rfl, rfl⟩
  | x :: xs, ops, hw, h => by
    simp only [Tree.elemToks] at h
    obtain ⟨xops, more, rfl, hx, hmore⟩ := List.map_eq_append_iff.1 h
    obtain ⟨tv, htv, hwv⟩ := ser_of_toks x xops (fun op hop => hw op (List.mem_append_left _ hop)) hx
    obtain ⟨ys, hys, hlen, hwl⟩ := elems_of_toks xs more (fun op hop => hw op (List.mem_append_right _ hop)) hmore
    refine ⟨tv :: ys, ?_, by simp [hlen], ?_⟩
    · simp [TVal.serList, htv, hys]
    · simp [wfList, hwv, hwl]
end

end SfVerif
