import SfVerif.Lemmas.DocLink2
import SfVerif.Lemmas.Path2
/-! Paths in the decoded tree are paths of the sequential walk: the node a path denotes in the
    tree is what the tree decoder decodes at the position `specPath` computes. -/
namespace SfVerif

theorem skip_mono_le (b : Bytes) {f f' : Nat} (h : f ≤ f') :
    (∀ pos e, skip b f pos = some e → skip b f' pos = some e) ∧
    (∀ k pos e, skipN b f k pos = some e → skipN b f' k pos = some e) ∧
    (∀ k pos e, skipPairs b f k pos = some e → skipPairs b f' k pos = some e) := by
  induction h with
  | refl => exact ⟨fun _ _ h => h, fun _ _ _ h => h, fun _ _ _ h => h⟩
  | step _ ih =>
    rename_i m _
    obtain ⟨a1, a2, a3⟩ := ih
    obtain ⟨b1, b2, b3⟩ := skip_mono b m
    exact ⟨fun p e h => b1 p e (a1 p e h), fun k p e h => b2 k p e (a2 k p e h), fun k p e h => b3 k p e (a3 k p e h)⟩

/-- the `i`-th decoded element sits where skipping `i` elements lands -/
theorem decodeN_get {b : Bytes} {f : Nat} : ∀ (k pos : Nat) (xs : List Doc) (e : Nat),
    decodeN b f k pos = some (xs, e) → Doc.keysStrList xs = true →
    ∀ i c, xs[i]? = some c → ∃ p e', skipN b f i pos = some p ∧ decodeAt b f p = some (c, e') ∧ c.keysStr = true := by
  intro k
  induction k with
  | zero =>
    intro pos xs e h _ i c hc
    simp only [decodeN, Option.some.injEq, Prod.mk.injEq] at h
    obtain ⟨rfl, _⟩ := h
    simp at hc
  | succ k ih =>
    intro pos xs e h hks i c hc
    rw [decodeN] at h
    cases h1 : decodeAt b f pos with
    | none => rw [h1] at h; cases h
    | some x =>
      obtain ⟨d0, e1⟩ := x
      rw [h1] at h; simp only [] at h
      cases h2 : decodeN b f k e1 with
      | none => rw [h2] at h; cases h
      | some y =>
        obtain ⟨ds, e2⟩ := y
        rw [h2] at h; simp only [Option.some.injEq, Prod.mk.injEq] at h
        obtain ⟨rfl, rfl⟩ := h
        simp only [Doc.keysStrList, Bool.and_eq_true] at hks
        cases i with
        | zero =>
          simp at hc; subst hc
          exact ⟨pos, e1, skipN_zero, h1, hks.1⟩
        | succ i =>
          simp at hc
          obtain ⟨p, e', hp, hd, hk⟩ := ih e1 ds e2 h2 hks.2 i c hc
          obtain ⟨_, _, hsk, _⟩ := dec_ok b f pos d0 e1 h1 hks.1
          exact ⟨p, e', by rw [skipN_some hsk]; exact hp, hd, hk⟩

/-- the `i`-th decoded pair: key header where skipping `i` pairs lands, value right after it -/
theorem decodePairs_get {b : Bytes} {f : Nat} : ∀ (k pos : Nat) (ps : List (Doc × Doc)) (e : Nat),
    decodePairs b f k pos = some (ps, e) → Doc.keysStrPairs ps = true →
    ∀ i kd vd, ps[i]? = some (kd, vd) → ∃ p ke e1 e2, skipPairs b f i pos = some p ∧
      decodeAt b f p = some (kd, e1) ∧ (∃ ko kl, readHdr b p = some (.scalar (.str ko kl) ke)) ∧
      decodeAt b f ke = some (vd, e2) ∧ kd.keysStr = true ∧ vd.keysStr = true := by
  intro k
  induction k with
  | zero =>
    intro pos ps e h _ i kd vd hc
    simp only [decodePairs, Option.some.injEq, Prod.mk.injEq] at h
    obtain ⟨rfl, _⟩ := h
    simp at hc
  | succ k ih =>
    intro pos ps e h hks i kd vd hc
    rw [decodePairs] at h
    cases h1 : decodeAt b f pos with
    | none => rw [h1] at h; cases h
    | some x =>
      obtain ⟨k0, e1⟩ := x
      rw [h1] at h; simp only [] at h
      cases h2 : decodeAt b f e1 with
      | none => rw [h2] at h; cases h
      | some y =>
        obtain ⟨v0, e2⟩ := y
        rw [h2] at h; simp only [] at h
        cases h3 : decodePairs b f k e2 with
        | none => rw [h3] at h; cases h
        | some z =>
          obtain ⟨rest, e3⟩ := z
          rw [h3] at h; simp only [Option.some.injEq, Prod.mk.injEq] at h
          obtain ⟨rfl, rfl⟩ := h
          simp only [Doc.keysStrPairs, Bool.and_eq_true] at hks
          obtain ⟨⟨hkstr, hv⟩, hrest⟩ := hks
          -- the key document is a string, so its header is a string header ending at e1
          have hkey : k0.keysStr = true ∧ ∃ ko kl, readHdr b pos = some (.scalar (.str ko kl) e1) := by
            cases k0 with
            | str bs =>
              obtain ⟨_, _, g3, hd0, g4, g5, _⟩ := dec_ok b f pos (.str bs) e1 h1 rfl
              refine ⟨rfl, ?_⟩
              cases hd0 with
              | scalar v ee =>
                cases v with
                | str ko kl =>
                  have : skip b f pos = some ee := by
                    cases f with
                    | zero => simp [decodeAt] at h1
                    | succ f => exact skip_scalar g4
                  rw [g3] at this; simp at this; subst this
                  exact ⟨ko, kl, g4⟩
                | null => simp [HdrDoc] at g5
                | bool x => simp [HdrDoc] at g5
                | num x => simp [HdrDoc, Doc.numBits?] at g5
              | arr l bd => simp [HdrDoc] at g5
              | map l bd => simp [HdrDoc] at g5
            | nil => simp at hkstr
            | bool x => simp at hkstr
            | int z => simp at hkstr
            | f32 v => simp at hkstr
            | f64 v => simp at hkstr
            | arr xs => simp at hkstr
            | map ps => simp at hkstr
          obtain ⟨hk0s, ko, kl, hkh⟩ := hkey
          cases i with
          | zero =>
            simp at hc; obtain ⟨rfl, rfl⟩ := hc
            exact ⟨pos, e1, e1, e2, skipPairs_zero, h1, ⟨ko, kl, hkh⟩, h2, hk0s, hv⟩
          | succ i =>
            simp at hc
            obtain ⟨p, ke, e1', e2', hp, hd1, hkk, hd2, hk1, hk2⟩ := ih e2 rest e3 h3 hrest i kd vd hc
            obtain ⟨_, _, hsk, _⟩ := dec_ok b f e1 v0 e2 h2 hv
            exact ⟨p, ke, e1', e2', by rw [skipPairs_some hkh hsk]; exact hp, hd1, hkk, hd2, hk1, hk2⟩

/-- **one step down**: a child in the tree is decoded at the child position of the walk -/
theorem doc_child {b : Bytes} {f pos e : Nat} {d c : Doc} {s : PStep} (hf : f ≤ eagerFuel b)
    (hdec : decodeAt b f pos = some (d, e)) (hks : d.keysStr = true) (hc : d.child? s = some c) :
    ∃ p f' e', specChild b pos s = some p ∧ decodeAt b f' p = some (c, e') ∧ f' ≤ eagerFuel b ∧ c.keysStr = true := by
  obtain ⟨_, _, _, hd, hh, hdoc, harr, hmap⟩ := dec_ok b f pos d e hdec hks
  have hlift := skip_mono_le b (show f - 1 ≤ eagerFuel b by omega)
  cases d with
  | arr xs =>
    cases s with
    | elem i =>
      simp only [Doc.child?] at hc
      cases hd with
      | arr len body =>
        obtain ⟨xs', hx, hn⟩ := harr len body rfl
        simp only [Doc.arr.injEq] at hx; subst hx
        simp only [HdrDoc] at hdoc
        have hi : i < len := by
          rw [← hdoc]
          cases hlt : decide (i < xs.length) with
          | true => simpa using hlt
          | false =>
            have : xs.length ≤ i := by simpa using hlt
            rw [List.getElem?_eq_none this] at hc; cases hc
        obtain ⟨p, e', hp, hdc, hkc⟩ := decodeN_get len body xs e hn (by simpa [Doc.keysStr] using hks) i c hc
        refine ⟨p, f - 1, e', ?_, hdc, by omega, hkc⟩
        simp only [specChild, hh]; rw [if_pos hi]; exact hlift.2.1 _ _ _ hp
      | scalar v ee => cases v <;> simp [HdrDoc, Doc.numBits?] at hdoc
      | map l bd => simp [HdrDoc] at hdoc
    | key i => simp [Doc.child?] at hc
    | val i => simp [Doc.child?] at hc
  | map ps =>
    cases hd with
    | map len body =>
      obtain ⟨ps', hx, hn⟩ := hmap len body rfl
      simp only [Doc.map.injEq] at hx; subst hx
      simp only [HdrDoc] at hdoc
      have pair_at : ∀ i kd vd, ps[i]? = some (kd, vd) → i < len ∧ ∃ p ke e1 e2, specKeyPos b pos i = some p ∧
          decodeAt b (f - 1) p = some (kd, e1) ∧ (∃ ko kl, readHdr b p = some (.scalar (.str ko kl) ke)) ∧
          decodeAt b (f - 1) ke = some (vd, e2) ∧ kd.keysStr = true ∧ vd.keysStr = true := by
        intro i kd vd hg
        have hi : i < len := by
          rw [← hdoc]
          cases hlt : decide (i < ps.length) with
          | true => simpa using hlt
          | false =>
            have : ps.length ≤ i := by simpa using hlt
            rw [List.getElem?_eq_none this] at hg; cases hg
        obtain ⟨p, ke, e1, e2, hp, h1, h2, h3, h4, h5⟩ :=
          decodePairs_get len body ps e hn (by simpa [Doc.keysStr] using hks) i kd vd hg
        refine ⟨hi, p, ke, e1, e2, ?_, h1, h2, h3, h4, h5⟩
        simp only [specKeyPos, hh]; rw [if_pos hi]; exact hlift.2.2 _ _ _ hp
      cases s with
      | elem i => simp [Doc.child?] at hc
      | key i =>
        simp only [Doc.child?] at hc
        cases hg : ps[i]? with
        | none => rw [hg] at hc; cases hc
        | some x =>
          obtain ⟨kd, vd⟩ := x
          rw [hg] at hc; simp at hc; subst hc
          obtain ⟨_, p, ke, e1, e2, hp, h1, _, _, h4, _⟩ := pair_at i kd vd hg
          exact ⟨p, f - 1, e1, by simp only [specChild]; exact hp, h1, by omega, h4⟩
      | val i =>
        simp only [Doc.child?] at hc
        cases hg : ps[i]? with
        | none => rw [hg] at hc; cases hc
        | some x =>
          obtain ⟨kd, vd⟩ := x
          rw [hg] at hc; simp at hc; subst hc
          obtain ⟨_, p, ke, e1, e2, hp, _, ⟨ko, kl, hk⟩, h3, _, h5⟩ := pair_at i kd vd hg
          exact ⟨ke, f - 1, e2, by simp only [specChild, hp, hk], h3, by omega, h5⟩
    | scalar v ee => cases v <;> simp [HdrDoc, Doc.numBits?] at hdoc
    | arr l bd => simp [HdrDoc] at hdoc
  | nil => cases s <;> simp [Doc.child?] at hc
  | bool x => cases s <;> simp [Doc.child?] at hc
  | int z => cases s <;> simp [Doc.child?] at hc
  | f32 v => cases s <;> simp [Doc.child?] at hc
  | f64 v => cases s <;> simp [Doc.child?] at hc
  | str bs => cases s <;> simp [Doc.child?] at hc

/-- **every path**: the node at `path` in the decoded tree is what the tree decoder decodes at
    `specPath b pos path` -/
theorem doc_path {b : Bytes} : ∀ (path : Path) {f pos e : Nat} {d c : Doc}, f ≤ eagerFuel b →
    decodeAt b f pos = some (d, e) → d.keysStr = true → d.getPath? path = some c →
    ∃ p f' e', specPath b pos path = some p ∧ decodeAt b f' p = some (c, e') ∧ f' ≤ eagerFuel b ∧ c.keysStr = true
  | [], f, pos, e, d, c, hf, hdec, hks, hc => by
    simp only [Doc.getPath?, Option.some.injEq] at hc; subst hc
    exact ⟨pos, f, e, rfl, hdec, hf, hks⟩
  | s :: rest, f, pos, e, d, c, hf, hdec, hks, hc => by
    simp only [Doc.getPath?] at hc
    cases hch : d.child? s with
    | none => rw [hch] at hc; cases hc
    | some c1 =>
      rw [hch] at hc
      obtain ⟨p1, f1, e1, hp1, hd1, hf1, hk1⟩ := doc_child hf hdec hks hch
      obtain ⟨p, f', e', hp, hd, hf', hk⟩ := doc_path rest hf1 hd1 hk1 hc
      exact ⟨p, f', e', by simp only [specPath, hp1, hp], hd, hf', hk⟩

end SfVerif
