import SfVerif.Lemmas.Ctx1
/-! `nodeOp`: running a good node operation at a valid container handle. -/
namespace SfVerif
open SfVerif.Gen

theorem roots_lt {c : Ctx} {k : Nat} {r : Node} (h : c.roots[k]? = some r) : k < c.roots.size := by
  by_cases hk : k < c.roots.size
  · exact hk
  · rw [Array.getElem?_eq_none (by omega)] at h; cases h

/-- `nodeOp` with a good operation at a valid container handle -/
theorem nodeOp_ok {c : Ctx} (hc : CInv c) {h : Handle} {m : Node}
    (hm : c.nodeAt? h = some m) (hcomp : m.isComposite = true)
    {g : Node → Node × Got} (hg : NodeOpOK c.input g) (childStep : Nat → PStep) :
    CInv (c.nodeOp h g childStep).1 ∧ (c.nodeOp h g childStep).1.input = c.input ∧
      (c.nodeOp h g childStep).1.interner = c.interner ∧ (c.nodeOp h g childStep).1.writer = c.writer ∧
      (c.nodeOp h g childStep).1.logs = c.logs ∧
      (c.nodeOp h g childStep).1.roots.size = c.roots.size ∧
      HandlesKept c (c.nodeOp h g childStep).1 ∧
      (c.nodeOp h g childStep).1.nodeAt? h = some (g m).1 ∧
      (c.nodeOp h g childStep).2 =
        (match (g m).2 with
         | .err code => .err code
         | .missing => .null
         | .at i =>
           match (g m).1.child? (childStep i) with
           | some n => Ctx.encodeNode { root := h.root, path := h.path ++ [childStep i] } n
           | none => .err ErrorCode_ReadError) := by
  unfold Ctx.nodeAt? at hm
  cases hr : c.roots[h.root]? with
  | none => rw [hr] at hm; cases hm
  | some r =>
    rw [hr] at hm
    simp only [] at hm
    have hrinv := hc _ r hr
    have hlt := roots_lt hr
    have hsome := updateAt_some g h.path r m hm hcomp
    cases hu : r.updateAt h.path g with
    | none => rw [hu] at hsome; cases hsome
    | some x =>
      obtain ⟨r', got⟩ := x
      obtain ⟨hext, m0, hm0, hgot, hm'⟩ := updateAt_spec g hg.ext h.path r r' got hu
      rw [hm] at hm0; simp at hm0; subst hm0
      subst hgot
      have hinv' : Inv c.input 0 r' := updateAt_inv hg h.path hrinv hu
      -- the new context
      have hstep : c.nodeOp h g childStep =
          ({ c with roots := c.roots.setIfInBounds h.root r' },
            (match (g m).2 with
             | .err code => RVal.err code
             | .missing => .null
             | .at i =>
               match r'.getPath? (h.path ++ [childStep i]) with
               | none => .err ErrorCode_ReadError
               | some n => Ctx.encodeNode { root := h.root, path := h.path ++ [childStep i] } n)) := by
        unfold Ctx.nodeOp
        simp only [hr, hu]
        cases (g m).2 <;> simp only []
        split <;> simp_all
      rw [hstep]
      refine ⟨?_, rfl, rfl, rfl, rfl, by simp, ?_, ?_, ?_⟩
      · intro k rk hk
        simp only [Array.getElem?_setIfInBounds] at hk
        by_cases hkr : h.root = k
        · rw [if_pos hkr, if_pos hlt] at hk; simp at hk; subst hk; exact hinv'
        · rw [if_neg hkr] at hk; exact hc k rk hk
      · intro h2 m2 hm2
        unfold Ctx.nodeAt? at hm2 ⊢
        simp only [Array.getElem?_setIfInBounds]
        by_cases hkr : h.root = h2.root
        · rw [if_pos hkr, if_pos hlt]
          rw [← hkr, hr] at hm2
          exact hext h2.path m2 hm2
        · rw [if_neg hkr]
          exact ⟨m2, hm2, rfl⟩
      · unfold Ctx.nodeAt?
        simp only [Array.getElem?_setIfInBounds, if_pos rfl, if_pos hlt]
        exact hm'
      · cases hg2 : (g m).2 with
        | err code => rfl
        | missing => rfl
        | «at» i =>
          simp only [getPath?_append, hm']
          cases (g m).1.child? (childStep i) <;> rfl

end SfVerif
