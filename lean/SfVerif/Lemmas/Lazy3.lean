import SfVerif.Lemmas.Lazy2
/-! Fuel adequacy (the nesting depth of a value is bounded by the bytes it occupies) and access
    to the processed prefix. -/
namespace SfVerif

theorem skipN_snoc {b : Bytes} {f : Nat} : ∀ (k p q s' : Nat), skipN b f k p = some q → skip b f q = some s' →
    skipN b f (k + 1) p = some s' := by
  intro k
  induction k with
  | zero => intro p q s' h1 h2; rw [skipN_zero] at h1; simp at h1; subst h1; rw [skipN_some h2, skipN_zero]
  | succ k ih =>
    intro p q s' h1 h2
    obtain ⟨y, hy, hrest⟩ := skipN_succ_inv h1
    rw [skipN_some hy]
    exact ih y q s' hrest h2

theorem skipPairs_snoc {b : Bytes} {f : Nat} : ∀ (k p q ko kl ke s' : Nat), skipPairs b f k p = some q →
    readHdr b q = some (.scalar (.str ko kl) ke) → skip b f ke = some s' →
    skipPairs b f (k + 1) p = some s' := by
  intro k
  induction k with
  | zero =>
    intro p q ko kl ke s' h1 hk h2
    rw [skipPairs_zero] at h1; simp at h1; subst h1
    rw [skipPairs_some hk h2, skipPairs_zero]
  | succ k ih =>
    intro p q ko kl ke s' h1 hk h2
    obtain ⟨ko', kl', ke', y, hk', hy, hrest⟩ := skipPairs_succ_inv h1
    rw [skipPairs_some hk' hy]
    exact ih y q ko kl ke s' hrest hk h2

/-- a complete view occupies at least one byte, ends inside the input, and the eager walk
    succeeds on it with any fuel exceeding the bytes that remain -/
theorem done_facts {b : Bytes} {pos n e} (h : Done b pos n e) :
    pos < e ∧ e ≤ b.size ∧ ∀ f, b.size - pos < f → skip b f pos = some e := by
  refine Done.rec
    (motive_1 := fun pos n e _ => pos < e ∧ e ≤ b.size ∧ ∀ f, b.size - pos < f → skip b f pos = some e)
    (motive_2 := fun p0 elems s _ => p0 ≤ s ∧ (p0 ≤ b.size → s ≤ b.size) ∧
        ∀ f, b.size - p0 < f → skipN b f elems.length p0 = some s)
    (motive_3 := fun p0 pairs s _ => p0 ≤ s ∧ (p0 ≤ b.size → s ≤ b.size) ∧
        ∀ f, b.size - p0 < f → skipPairs b f pairs.length p0 = some s)
    ?_ ?_ ?_ ?_ ?_ ?_ ?_ h
  · intro pos v e hh
    have := readHdr_scalar_gt hh
    refine ⟨this.1, this.2, ?_⟩
    intro f hf
    cases f with
    | zero => omega
    | succ f => exact skip_scalar hh
  · intro pos len body elems e hh hlen _ ih
    have hb := readHdr_arr_gt hh
    obtain ⟨h1, h2, h3⟩ := ih
    refine ⟨by omega, h2 hb.2.1, ?_⟩
    intro f hf
    cases f with
    | zero => omega
    | succ f =>
      rw [skip_arr hh, ← hlen]
      exact h3 f (by omega)
  · intro pos len body pairs e hh hlen _ ih
    have hb := readHdr_map_gt hh
    obtain ⟨h1, h2, h3⟩ := ih
    refine ⟨by omega, h2 hb.2.1, ?_⟩
    intro f hf
    cases f with
    | zero => omega
    | succ f =>
      rw [skip_map hh, ← hlen]
      exact h3 f (by omega)
  · intro p0
    exact ⟨Nat.le_refl _, fun h => h, fun f _ => by simp [NodeList.length, skipN_zero]⟩
  · intro p0 init s n s' _ _ ih1 ih2
    obtain ⟨a1, a2, a3⟩ := ih1
    obtain ⟨b1, b2, b3⟩ := ih2
    refine ⟨by omega, fun _ => b2, ?_⟩
    intro f hf
    -- peel the last element: skipN (init.length + 1) = skipN init.length then one more
    have hinit := a3 f hf
    have hlast := b3 f (by omega)
    simpa [NodeList.length] using skipN_snoc init.length p0 s s' hinit hlast
  · intro p0
    exact ⟨Nat.le_refl _, fun h => h, fun f _ => by simp [PairList.length, skipPairs_zero]⟩
  · intro p0 init s ko kl ke n s' _ hk _ ih1 ih2
    obtain ⟨a1, a2, a3⟩ := ih1
    obtain ⟨b1, b2, b3⟩ := ih2
    have hke := readHdr_scalar_gt hk
    refine ⟨by omega, fun _ => b2, ?_⟩
    intro f hf
    have hinit := a3 f hf
    have hlast := b3 f (by omega)
    simpa [PairList.length] using skipPairs_snoc init.length p0 s ko kl ke s' hinit hk hlast

theorem pre_facts {b : Bytes} {p0 elems s} (h : Pre b p0 elems s) :
    p0 ≤ s ∧ (p0 ≤ b.size → s ≤ b.size) ∧ ∀ f, b.size - p0 < f → skipN b f elems.length p0 = some s := by
  refine Pre.rec
    (motive_1 := fun pos n e _ => pos < e ∧ e ≤ b.size ∧ ∀ f, b.size - pos < f → skip b f pos = some e)
    (motive_2 := fun p0 elems s _ => p0 ≤ s ∧ (p0 ≤ b.size → s ≤ b.size) ∧
        ∀ f, b.size - p0 < f → skipN b f elems.length p0 = some s)
    (motive_3 := fun p0 pairs s _ => p0 ≤ s ∧ (p0 ≤ b.size → s ≤ b.size) ∧
        ∀ f, b.size - p0 < f → skipPairs b f pairs.length p0 = some s)
    ?_ ?_ ?_ ?_ ?_ ?_ ?_ h
  · intro pos v e hh
    have := readHdr_scalar_gt hh
    refine ⟨this.1, this.2, ?_⟩
    intro f hf
    cases f with
    | zero => omega
    | succ f => exact skip_scalar hh
  · intro pos len body elems e hh hlen _ ih
    have hb := readHdr_arr_gt hh
    obtain ⟨h1, h2, h3⟩ := ih
    refine ⟨by omega, h2 hb.2.1, ?_⟩
    intro f hf
    cases f with
    | zero => omega
    | succ f =>
      rw [skip_arr hh, ← hlen]
      exact h3 f (by omega)
  · intro pos len body pairs e hh hlen _ ih
    have hb := readHdr_map_gt hh
    obtain ⟨h1, h2, h3⟩ := ih
    refine ⟨by omega, h2 hb.2.1, ?_⟩
    intro f hf
    cases f with
    | zero => omega
    | succ f =>
      rw [skip_map hh, ← hlen]
      exact h3 f (by omega)
  · intro p0
    exact ⟨Nat.le_refl _, fun h => h, fun f _ => by simp [NodeList.length, skipN_zero]⟩
  · intro p0 init s n s' _ _ ih1 ih2
    obtain ⟨a1, a2, a3⟩ := ih1
    obtain ⟨b1, b2, b3⟩ := ih2
    refine ⟨by omega, fun _ => b2, ?_⟩
    intro f hf
    -- peel the last element: skipN (init.length + 1) = skipN init.length then one more
    have hinit := a3 f hf
    have hlast := b3 f (by omega)
    simpa [NodeList.length] using skipN_snoc init.length p0 s s' hinit hlast
  · intro p0
    exact ⟨Nat.le_refl _, fun h => h, fun f _ => by simp [PairList.length, skipPairs_zero]⟩
  · intro p0 init s ko kl ke n s' _ hk _ ih1 ih2
    obtain ⟨a1, a2, a3⟩ := ih1
    obtain ⟨b1, b2, b3⟩ := ih2
    have hke := readHdr_scalar_gt hk
    refine ⟨by omega, fun _ => b2, ?_⟩
    intro f hf
    have hinit := a3 f hf
    have hlast := b3 f (by omega)
    simpa [PairList.length] using skipPairs_snoc init.length p0 s ko kl ke s' hinit hk hlast


theorem preP_facts {b : Bytes} {p0 pairs s} (h : PreP b p0 pairs s) :
    p0 ≤ s ∧ (p0 ≤ b.size → s ≤ b.size) ∧ ∀ f, b.size - p0 < f → skipPairs b f pairs.length p0 = some s := by
  refine PreP.rec
    (motive_1 := fun pos n e _ => pos < e ∧ e ≤ b.size ∧ ∀ f, b.size - pos < f → skip b f pos = some e)
    (motive_2 := fun p0 elems s _ => p0 ≤ s ∧ (p0 ≤ b.size → s ≤ b.size) ∧
        ∀ f, b.size - p0 < f → skipN b f elems.length p0 = some s)
    (motive_3 := fun p0 pairs s _ => p0 ≤ s ∧ (p0 ≤ b.size → s ≤ b.size) ∧
        ∀ f, b.size - p0 < f → skipPairs b f pairs.length p0 = some s)
    ?_ ?_ ?_ ?_ ?_ ?_ ?_ h
  · intro pos v e hh
    have := readHdr_scalar_gt hh
    refine ⟨this.1, this.2, ?_⟩
    intro f hf
    cases f with
    | zero => omega
    | succ f => exact skip_scalar hh
  · intro pos len body elems e hh hlen _ ih
    have hb := readHdr_arr_gt hh
    obtain ⟨h1, h2, h3⟩ := ih
    refine ⟨by omega, h2 hb.2.1, ?_⟩
    intro f hf
    cases f with
    | zero => omega
    | succ f =>
      rw [skip_arr hh, ← hlen]
      exact h3 f (by omega)
  · intro pos len body pairs e hh hlen _ ih
    have hb := readHdr_map_gt hh
    obtain ⟨h1, h2, h3⟩ := ih
    refine ⟨by omega, h2 hb.2.1, ?_⟩
    intro f hf
    cases f with
    | zero => omega
    | succ f =>
      rw [skip_map hh, ← hlen]
      exact h3 f (by omega)
  · intro p0
    exact ⟨Nat.le_refl _, fun h => h, fun f _ => by simp [NodeList.length, skipN_zero]⟩
  · intro p0 init s n s' _ _ ih1 ih2
    obtain ⟨a1, a2, a3⟩ := ih1
    obtain ⟨b1, b2, b3⟩ := ih2
    refine ⟨by omega, fun _ => b2, ?_⟩
    intro f hf
    -- peel the last element: skipN (init.length + 1) = skipN init.length then one more
    have hinit := a3 f hf
    have hlast := b3 f (by omega)
    simpa [NodeList.length] using skipN_snoc init.length p0 s s' hinit hlast
  · intro p0
    exact ⟨Nat.le_refl _, fun h => h, fun f _ => by simp [PairList.length, skipPairs_zero]⟩
  · intro p0 init s ko kl ke n s' _ hk _ ih1 ih2
    obtain ⟨a1, a2, a3⟩ := ih1
    obtain ⟨b1, b2, b3⟩ := ih2
    have hke := readHdr_scalar_gt hk
    refine ⟨by omega, fun _ => b2, ?_⟩
    intro f hf
    have hinit := a3 f hf
    have hlast := b3 f (by omega)
    simpa [PairList.length] using skipPairs_snoc init.length p0 s ko kl ke s' hinit hk hlast


end SfVerif
