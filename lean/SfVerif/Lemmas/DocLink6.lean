import SfVerif.Lemmas.DocLink5
import SfVerif.Lemmas.Lazy6
/-! property lookup: `specProp` over the bytes = first string key equal to the name in the tree -/
namespace SfVerif
open SfVerif.Gen

theorem findProp_spec (q : Bytes) : ∀ (ps : List (Doc × Doc)) (idx i : Nat) (v : Doc),
    Doc.findProp q ps idx = some (i, v) → idx ≤ i ∧ ∃ kd, ps[i - idx]? = some (kd, v)
  | [], idx, i, v, h => by simp [Doc.findProp] at h
  | (k, v0) :: rest, idx, i, v, h => by
    have hrec : Doc.findProp q rest (idx + 1) = some (i, v) → idx ≤ i ∧ ∃ kd, ((k, v0) :: rest)[i - idx]? = some (kd, v) := by
      intro h'
      obtain ⟨h1, kd, h2⟩ := findProp_spec q rest (idx + 1) i v h'
      refine ⟨by omega, kd, ?_⟩
      rw [show i - idx = (i - (idx + 1)) + 1 by omega]
      simpa using h2
    cases k with
    | str bs =>
      simp only [Doc.findProp] at h
      by_cases hq : bs = q
      · rw [if_pos hq] at h
        simp only [Option.some.injEq, Prod.mk.injEq] at h
        obtain ⟨rfl, rfl⟩ := h
        exact ⟨Nat.le_refl _, .str bs, by simp⟩
      · rw [if_neg hq] at h; exact hrec h
    | nil => simp only [Doc.findProp] at h; exact hrec h
    | bool x => simp only [Doc.findProp] at h; exact hrec h
    | int z => simp only [Doc.findProp] at h; exact hrec h
    | f32 x => simp only [Doc.findProp] at h; exact hrec h
    | f64 x => simp only [Doc.findProp] at h; exact hrec h
    | arr xs => simp only [Doc.findProp] at h; exact hrec h
    | map xs => simp only [Doc.findProp] at h; exact hrec h

/-- `specProp` walked over the encoded pairs answers what `findProp` answers on the decoded pairs -/
theorem specProp_doc {b : Bytes} {f : Nat} (hf : f ≤ eagerFuel b) (q : Bytes) :
    ∀ (k s : Nat) (ps : List (Doc × Doc)) (e idx : Nat), decodePairs b f k s = some (ps, e) →
      Doc.keysStrPairs ps = true → s ≤ b.size →
      (∃ i v ke, Doc.findProp q ps idx = some (i, v) ∧ specProp b (eagerFuel b) q k s idx = .found i ke) ∨
      (Doc.findProp q ps idx = none ∧ specProp b (eagerFuel b) q k s idx = .missing) := by
  intro k
  induction k with
  | zero =>
    intro s ps e idx h _ _
    simp only [decodePairs, Option.some.injEq, Prod.mk.injEq] at h
    obtain ⟨rfl, _⟩ := h
    exact Or.inr ⟨rfl, specProp_zero ..⟩
  | succ k ih =>
    intro s ps e idx h hks hs
    have hall := decP_of_dec (dec_ok b f) (k + 1) s ps e h hks hs
    obtain ⟨kd, vd, rest, rfl⟩ : ∃ kd vd rest, ps = (kd, vd) :: rest := by
      cases ps with
      | nil => simp at hall
      | cons x rest => exact ⟨x.1, x.2, rest, rfl⟩
    have hg : ((kd, vd) :: rest)[0]? = some (kd, vd) := rfl
    -- unfold the first pair
    rw [decodePairs] at h
    cases h1 : decodeAt b f s with
    | none => rw [h1] at h; cases h
    | some x =>
      obtain ⟨k0, e1⟩ := x
      rw [h1] at h; simp only [] at h
      cases h2 : decodeAt b f e1 with
      | none => rw [h2] at h; cases h
      | some y =>
        obtain ⟨v0, e2⟩ := y
        rw [h2] at h; simp only [] at h
        cases h3 : decodePairs b f k e2 with
        | none => rw [h3] at h; cases h
        | some z =>
          obtain ⟨rest', e3⟩ := z
          rw [h3] at h; simp only [Option.some.injEq, Prod.mk.injEq, List.cons.injEq] at h
          obtain ⟨⟨⟨rfl, rfl⟩, rfl⟩, rfl⟩ := h
          simp only [Doc.keysStrPairs, Bool.and_eq_true] at hks
          obtain ⟨⟨hkstr, hv⟩, hrest⟩ := hks
          obtain ⟨v1, v2, v3, hdv, hhv, _, _, _⟩ := dec_ok b f e1 v0 e2 h2 hv
          cases k0 with
          | str bs =>
            obtain ⟨g1, g2, g3, hd0, g4, g5, _⟩ := dec_ok b f s (.str bs) e1 h1 rfl
            cases hd0 with
            | scalar vv ee =>
              cases vv with
              | str ko kl =>
                have hee : ee = e1 := by
                  have : skip b f s = some ee := by
                    cases f with
                    | zero => simp [decodeAt] at h1
                    | succ f => exact skip_scalar g4
                  rw [g3] at this; simpa using this.symm
                subst hee
                simp only [HdrDoc] at g5
                obtain ⟨hbs, hle⟩ := g5
                have hkeq : keyEq b ko kl q = true ↔ bs = q := by rw [keyEq_iff hle, hbs]
                rw [specProp, g4]
                simp only [hhv]
                by_cases hq : bs = q
                · left
                  refine ⟨idx, v0, ee, by simp [Doc.findProp, hq], ?_⟩
                  rw [if_pos (hkeq.mpr hq)]
                · have hkf : ¬ (keyEq b ko kl q = true) := fun hh => hq (hkeq.mp hh)
                  rw [if_neg hkf]
                  have hrestlen := (decP_of_dec (dec_ok b f) k e2 rest' e3 h3 hrest v2).1
                  by_cases hk0 : k = 0
                  · right
                    rw [if_pos hk0]
                    subst hk0
                    have : rest' = [] := List.eq_nil_of_length_eq_zero hrestlen
                    subst this
                    exact ⟨by simp [Doc.findProp, hq], rfl⟩
                  · rw [if_neg hk0]
                    have hsk : skip b (eagerFuel b) ee = some e2 := (skip_mono_le b hf).1 _ _ v3
                    simp only [hsk]
                    rcases ih e2 rest' e3 (idx + 1) h3 hrest v2 with ⟨i, v, ke, hfp, hsp⟩ | ⟨hfp, hsp⟩
                    · exact Or.inl ⟨i, v, ke, by simp [Doc.findProp, hq, hfp], hsp⟩
                    · exact Or.inr ⟨by simp [Doc.findProp, hq, hfp], hsp⟩
              | null => simp [HdrDoc] at g5
              | bool x => simp [HdrDoc] at g5
              | num x => simp [HdrDoc, Doc.numBits?] at g5
            | arr l bd => simp [HdrDoc] at g5
            | map l bd => simp [HdrDoc] at g5
          | nil => simp at hkstr
          | bool x => simp at hkstr
          | int z => simp at hkstr
          | f32 v => simp at hkstr
          | f64 v => simp at hkstr
          | arr xs => simp at hkstr
          | map ps => simp at hkstr

theorem getObjProp_doc {b : Bytes} {d c : Doc} (h : Decodes b d) {hh : Handle} (hc : d.getPath? hh.path = some c) (q : Bytes) :
    Spec.getObjProp b hh q = DocSpec.getObjProp c hh q := by
  obtain ⟨p, f, e, hd, hp, hdc, hf, hk, hrd, hdoc⟩ := doc_at h hc
  have hhdr : Spec.hdrAt b hh = some hd := by simp only [Spec.hdrAt, hp, hrd]
  cases c with
  | map ps =>
    obtain ⟨_, _, _, hd', hh', hdoc', _, hmap⟩ := dec_ok b f p (.map ps) e hdc hk
    rw [hrd] at hh'; simp only [Option.some.injEq] at hh'; subst hh'
    cases hd with
    | map len body =>
      obtain ⟨ps', hx, hn⟩ := hmap len body rfl
      simp only [Doc.map.injEq] at hx; subst hx
      have hbody := (readHdr_map_gt hrd).2.1
      simp only [Spec.getObjProp, hhdr, DocSpec.getObjProp]
      rcases specProp_doc (show f - 1 ≤ eagerFuel b by omega) q len body ps e 0 hn (by simpa [Doc.keysStr] using hk) hbody with
        ⟨i, v, ke, hfp, hsp⟩ | ⟨hfp, hsp⟩
      · simp only [hsp, hfp]
        obtain ⟨_, kd, hget⟩ := findProp_spec q ps 0 i v hfp
        simp only [Nat.sub_zero] at hget
        exact valueAt_doc h (by rw [Doc.getPath?_append, hc]; simp [Doc.child?, hget]) _
      · simp only [hsp, hfp]
    | scalar v ee => cases v <;> simp [HdrDoc, Doc.numBits?] at hdoc
    | arr l bd => simp [HdrDoc] at hdoc
  | arr xs =>
    cases hd with
    | arr len body => simp [Spec.getObjProp, hhdr, DocSpec.getObjProp]
    | scalar v ee => cases v <;> simp [HdrDoc, Doc.numBits?] at hdoc
    | map l bd => simp [HdrDoc] at hdoc
  | nil => cases hd with
    | scalar v ee => simp [Spec.getObjProp, hhdr, DocSpec.getObjProp]
    | arr l bd => simp [HdrDoc] at hdoc
    | map l bd => simp [HdrDoc] at hdoc
  | bool x => cases hd with
    | scalar v ee => simp [Spec.getObjProp, hhdr, DocSpec.getObjProp]
    | arr l bd => simp [HdrDoc] at hdoc
    | map l bd => simp [HdrDoc] at hdoc
  | int z => cases hd with
    | scalar v ee => simp [Spec.getObjProp, hhdr, DocSpec.getObjProp]
    | arr l bd => simp [HdrDoc] at hdoc
    | map l bd => simp [HdrDoc] at hdoc
  | f32 v => cases hd with
    | scalar v ee => simp [Spec.getObjProp, hhdr, DocSpec.getObjProp]
    | arr l bd => simp [HdrDoc] at hdoc
    | map l bd => simp [HdrDoc] at hdoc
  | f64 v => cases hd with
    | scalar v ee => simp [Spec.getObjProp, hhdr, DocSpec.getObjProp]
    | arr l bd => simp [HdrDoc] at hdoc
    | map l bd => simp [HdrDoc] at hdoc
  | str bs => cases hd with
    | scalar v ee => simp [Spec.getObjProp, hhdr, DocSpec.getObjProp]
    | arr l bd => simp [HdrDoc] at hdoc
    | map l bd => simp [HdrDoc] at hdoc

end SfVerif
