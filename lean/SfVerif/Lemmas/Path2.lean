import SfVerif.Lemmas.Path1
/-! Fuel monotonicity of the eager walk; positions where the eager decoder succeeds (`GoodAt`);
    operations on a complete view change nothing. -/
namespace SfVerif
open SfVerif.Gen

theorem skip_mono (b : Bytes) : ∀ f,
    (∀ pos e, skip b f pos = some e → skip b (f+1) pos = some e) ∧
    (∀ k pos e, skipN b f k pos = some e → skipN b (f+1) k pos = some e) ∧
    (∀ k pos e, skipPairs b f k pos = some e → skipPairs b (f+1) k pos = some e) := by
  intro f
  induction f with
  | zero =>
    refine ⟨?_, ?_, ?_⟩
    · intro pos e h; simp [skip] at h
    · intro k pos e h
      cases k with
      | zero => rw [skipN_zero] at h ⊢; exact h
      | succ k => rw [skipN] at h; simp [skip] at h
    · intro k pos e h
      cases k with
      | zero => rw [skipPairs_zero] at h ⊢; exact h
      | succ k =>
        obtain ⟨ko, kl, ke, y, hk, hy, _⟩ := skipPairs_succ_inv h
        simp [skip] at hy
  | succ f ih =>
    obtain ⟨ih1, ih2, ih3⟩ := ih
    have hs : ∀ pos e, skip b (f+1) pos = some e → skip b (f+1+1) pos = some e := by
      intro pos e h
      cases hh : readHdr b pos with
      | none => rw [skip_none hh] at h; cases h
      | some hd =>
        cases hd with
        | scalar v x => rw [skip_scalar hh] at h ⊢; exact h
        | arr len body => rw [skip_arr hh] at h ⊢; exact ih2 _ _ _ h
        | map len body => rw [skip_map hh] at h ⊢; exact ih3 _ _ _ h
    refine ⟨hs, ?_, ?_⟩
    · intro k
      induction k with
      | zero => intro pos e h; rw [skipN_zero] at h ⊢; exact h
      | succ k ihk =>
        intro pos e h
        obtain ⟨y, hy, hrest⟩ := skipN_succ_inv h
        rw [skipN_some (hs _ _ hy)]; exact ihk _ _ hrest
    · intro k
      induction k with
      | zero => intro pos e h; rw [skipPairs_zero] at h ⊢; exact h
      | succ k ihk =>
        intro pos e h
        obtain ⟨ko, kl, ke, y, hk, hy, hrest⟩ := skipPairs_succ_inv h
        rw [skipPairs_some hk (hs _ _ hy)]; exact ihk _ _ hrest

/-- the eager decoder can decode the value at `p` -/
def GoodAt (b : Bytes) (p : Nat) : Prop := ∃ e, skip b (eagerFuel b) p = some e

theorem good_arr {b : Bytes} {pos len body : Nat} (hg : GoodAt b pos) (hh : readHdr b pos = some (.arr len body)) :
    ∃ e, skipN b (eagerFuel b) len body = some e := by
  obtain ⟨e, he⟩ := hg
  unfold eagerFuel at he ⊢
  rw [skip_arr hh] at he
  exact ⟨e, (skip_mono b _).2.1 _ _ _ he⟩

theorem good_map {b : Bytes} {pos len body : Nat} (hg : GoodAt b pos) (hh : readHdr b pos = some (.map len body)) :
    ∃ e, skipPairs b (eagerFuel b) len body = some e := by
  obtain ⟨e, he⟩ := hg
  unfold eagerFuel at he ⊢
  rw [skip_map hh] at he
  exact ⟨e, (skip_mono b _).2.2 _ _ _ he⟩

theorem good_arr_elem {b : Bytes} {pos len body i : Nat} (hg : GoodAt b pos)
    (hh : readHdr b pos = some (.arr len body)) (hi : i < len) :
    ∃ p hd, skipN b (eagerFuel b) i body = some p ∧ readHdr b p = some hd ∧ GoodAt b p := by
  obtain ⟨e, he⟩ := good_arr hg hh
  rw [show len = i + ((len - i - 1) + 1) by omega] at he
  obtain ⟨p, hp, hrest⟩ := skipN_split _ _ _ _ he
  obtain ⟨y, hy, _⟩ := skipN_succ_inv hrest
  obtain ⟨hd, hhd⟩ := skip_some_hdr hy
  exact ⟨p, hd, hp, hhd, y, hy⟩

theorem good_map_pair {b : Bytes} {pos len body i : Nat} (hg : GoodAt b pos)
    (hh : readHdr b pos = some (.map len body)) (hi : i < len) :
    ∃ p ko kl ke hd, skipPairs b (eagerFuel b) i body = some p ∧ readHdr b p = some (.scalar (.str ko kl) ke) ∧
      readHdr b ke = some hd ∧ GoodAt b ke := by
  obtain ⟨e, he⟩ := good_map hg hh
  rw [show len = i + ((len - i - 1) + 1) by omega] at he
  obtain ⟨p, hp, hrest⟩ := skipPairs_split _ _ _ _ he
  obtain ⟨ko, kl, ke, y, hk, hy, _⟩ := skipPairs_succ_inv hrest
  obtain ⟨hd, hhd⟩ := skip_some_hdr hy
  exact ⟨p, ko, kl, ke, hd, hp, hk, hhd, y, hy⟩

theorem good_child {b : Bytes} {pos p : Nat} {s : PStep} (hg : GoodAt b pos) (hs : specChild b pos s = some p) :
    GoodAt b p := by
  cases s with
  | elem i =>
    simp only [specChild] at hs
    split at hs
    · rename_i len body hh
      by_cases hi : i < len
      · rw [if_pos hi] at hs
        obtain ⟨p', hd, hp', _, hgp⟩ := good_arr_elem hg hh hi
        rw [hs] at hp'; simp at hp'; subst hp'; exact hgp
      · rw [if_neg hi] at hs; cases hs
    · cases hs
  | key i =>
    simp only [specChild, specKeyPos] at hs
    split at hs
    · rename_i len body hh
      by_cases hi : i < len
      · rw [if_pos hi] at hs
        obtain ⟨p', ko, kl, ke, hd, hp', hk, _, _⟩ := good_map_pair hg hh hi
        rw [hs] at hp'; simp at hp'; subst hp'
        exact ⟨ke, by unfold eagerFuel; exact skip_scalar hk⟩
      · rw [if_neg hi] at hs; cases hs
    · cases hs
  | val i =>
    simp only [specChild, specKeyPos] at hs
    split at hs
    · rename_i s hks
      split at hks
      · rename_i len body hh
        by_cases hi : i < len
        · rw [if_pos hi] at hks
          obtain ⟨p', ko, kl, ke, hd, hp', hk, _, hgk⟩ := good_map_pair hg hh hi
          rw [hks] at hp'; simp at hp'; subst hp'
          rw [hk] at hs; simp at hs; subst hs; exact hgk
        · rw [if_neg hi] at hks; cases hks
      · cases hks
    · cases hs

theorem good_path {b : Bytes} : ∀ (path : Path) {pos p : Nat}, GoodAt b pos → specPath b pos path = some p → GoodAt b p
  | [], pos, p, hg, h => by simp [specPath] at h; subst h; exact hg
  | s :: rest, pos, p, hg, h => by
    simp only [specPath] at h
    cases hc : specChild b pos s with
    | none => rw [hc] at h; cases h
    | some p' => rw [hc] at h; exact good_path rest (good_child hg hc) h

theorem good_specProp {b : Bytes} {q : Bytes} : ∀ (k s idx e : Nat), skipPairs b (eagerFuel b) k s = some e →
    specProp b (eagerFuel b) q k s idx ≠ .err := by
  intro k
  induction k with
  | zero => intro s idx e _; rw [specProp_zero]; simp
  | succ k ih =>
    intro s idx e h
    obtain ⟨ko, kl, ke, y, hk, hy, hrest⟩ := skipPairs_succ_inv h
    obtain ⟨hd, hhd⟩ := skip_some_hdr hy
    rw [specProp, hk]
    simp only [hhd]
    by_cases hkey : keyEq b ko kl q = true
    · simp [hkey]
    · simp only [hkey, Bool.false_eq_true, if_false]
      by_cases hk0 : k = 0
      · simp [hk0]
      · simp only [hk0, if_false, hy]
        exact ih y (idx + 1) e hrest

/-- **on a complete view every operation is the identity** (everything is already parsed) -/
theorem ops_done_id {b : Bytes} {p e : Nat} {m : Node} (hd : Done b p m e) (f : Nat) :
    (∀ i, (m.getAtIndex b f i).1 = m) ∧ (∀ i, (m.getKeyAtIndex b f i).1 = m) ∧ (∀ q, (m.getProp b f q).1 = m) := by
  cases hd with
  | scalar hh => simp [Node.getAtIndex, Node.getKeyAtIndex, Node.getProp]
  | @arr pos len body elems e hh hlen hpre =>
    refine ⟨?_, by simp [Node.getKeyAtIndex], by simp [Node.getProp]⟩
    intro i
    simp only [Node.getAtIndex, arrGet]
    by_cases h1 : i ≥ len
    · rw [if_pos h1]
    · rw [if_neg h1, if_pos (by omega)]
  | @obj pos len body pairs e hh hlen hpre =>
    have hget : ∀ i, (objGet b f len pairs e i).1 = .obj len pairs e := by
      intro i
      simp only [objGet]
      by_cases h1 : i ≥ len
      · rw [if_pos h1]
      · rw [if_neg h1, if_pos (by omega)]
    refine ⟨fun i => by simp only [Node.getAtIndex]; exact hget i,
      fun i => by simp only [Node.getKeyAtIndex]; exact hget i, ?_⟩
    intro q
    simp only [Node.getProp, objProp]
    cases hf : pairs.findKey b q with
    | some i => rfl
    | none => simp only [hlen, Nat.sub_self]; rw [objPropLoop_zero]

end SfVerif
