import SfVerif.Lemmas.Ring2
/-! A trap between the two halves of a log call: the ring after a plan request alone is the ring
    after logging the bytes that already lie where the plan points. -/
namespace SfVerif.Ring
open SfVerif SfVerif.Logs

/-- the bytes already lying where a plan for `n` bytes points (what a host sees there if the copy never happens) -/
def reserved (cap : Nat) (l : Logs) (n : Nat) : List UInt8 :=
  List.ofFn (n := n) (fun j => l.buf.getD ((l.offset + (j.val - (n - min n cap))) % cap) 0)

theorem reserved_length (cap : Nat) (l : Logs) (n : Nat) : (reserved cap l n).length = n := by
  simp [reserved]

theorem append_is_log_reserved (cap : Nat) (l : Logs) (n : Nat) (h : Inv cap l) :
    (append cap l n).1 = log cap l (reserved cap l n) := by
  have hlen := reserved_length cap l n
  obtain ⟨a1, a2, a3, _⟩ := append_spec cap l n h
  have hinv' := log_inv cap l (reserved cap l n) h
  have hl := log_eq cap l (reserved cap l n)
  rw [hlen] at hl
  have hoff : (log cap l (reserved cap l n)).offset = (append cap l n).1.offset := by rw [hl]; rfl
  have hln : (log cap l (reserved cap l n)).len = (append cap l n).1.len := by rw [hl]; rfl
  have hbuf : (log cap l (reserved cap l n)).buf = l.buf := by
    obtain ⟨hc, hb, ho, _, _⟩ := h
    apply List.ext_getElem?
    intro p
    by_cases hp : p < cap
    · rw [log_buf_getElem? cap l _ ⟨hc, hb, ho, by assumption, by assumption⟩ p hp, hlen]
      split
      · rename_i hq
        have hmn : min n cap ≤ n := Nat.min_le_left _ _
        have hidx : n - min n cap + (p + cap - l.offset) % cap < n := by omega
        have hpb : p < l.buf.length := by omega
        simp only [reserved, List.getElem?_ofFn, hidx, dite_true]
        have hk : n - min n cap + (p + cap - l.offset) % cap - (n - min n cap) = (p + cap - l.offset) % cap := by omega
        rw [hk]
        have hback : (l.offset + (p + cap - l.offset) % cap) % cap = p := by
          by_cases hlt : p < l.offset
          · have : (p + cap - l.offset) % cap = p + cap - l.offset := Nat.mod_eq_of_lt (by omega)
            rw [this]
            have : l.offset + (p + cap - l.offset) = p + cap := by omega
            rw [this, Nat.add_mod_right, Nat.mod_eq_of_lt hp]
          · have hq1 : (p + cap - l.offset) % cap = p - l.offset := by
              have : p + cap - l.offset = (p - l.offset) + cap := by omega
              rw [this, Nat.add_mod_right]
              exact Nat.mod_eq_of_lt (by omega)
            rw [hq1]
            have : l.offset + (p - l.offset) = p := by omega
            rw [this]
            exact Nat.mod_eq_of_lt hp
        rw [hback]
        simp [List.getD, hpb]
      · rfl
    · have e1 : (log cap l (reserved cap l n)).buf.length = cap := hinv'.2.1
      rw [List.getElem?_eq_none (by omega), List.getElem?_eq_none (by omega)]
  have : ∀ (x y : Logs), x.buf = y.buf → x.len = y.len → x.offset = y.offset → x = y := by
    intro x y; cases x; cases y; simp; intro a b c; exact ⟨a, c, b⟩
  exact this _ _ (by rw [a3, hbuf]) hln.symm hoff.symm

/-- a trap between the two halves of a log call -/
theorem read_after_request (cap : Nat) (l : Logs) (n : Nat) (h : Inv cap l) :
    Logs.read cap (append cap l n).1 = lastN cap (Logs.read cap l ++ reserved cap l n) := by
  rw [append_is_log_reserved cap l n h, log_read cap l _ h]

end SfVerif.Ring
