import SfVerif.Lemmas.Path3
import SfVerif.Lemmas.Fail4
/-! The three mutating node operations on **arbitrary bytes**, from any correct partial view:
    either the sequential decoder finds the child and the call returns a correct view of it, or
    it does not and the call answers `ReadError` — a correct partial view is left either way. -/
namespace SfVerif
open SfVerif.Gen

theorem getAtIndex_arr_tot {b : Bytes} {p len body i : Nat} {m : Node} (hinv : Inv b p m)
    (hh : readHdr b p = some (.arr len body)) (hi : i < len) :
    (∃ cp hd m' c, specChild b p (.elem i) = some cp ∧ readHdr b cp = some hd ∧
        m.getAtIndex b (eagerFuel b) i = (m', .at i) ∧ Inv b p m' ∧ m'.child? (.elem i) = some c ∧ Inv b cp c) ∨
    ((specChild b p (.elem i) = none ∨ ∃ cp, specChild b p (.elem i) = some cp ∧ readHdr b cp = none) ∧
      ∃ m', m.getAtIndex b (eagerFuel b) i = (m', .err ErrorCode_ReadError) ∧ Inv b p m') := by
  obtain ⟨elems, e, rfl⟩ := inv_arr_form hinv hh
  have hsc : specChild b p (.elem i) = skipN b (eagerFuel b) i body := by
    simp only [specChild, hh]; rw [if_pos hi]
  rw [hsc]
  cases hs : skipN b (eagerFuel b) i body with
  | none =>
    right
    obtain ⟨elems', e', hres, hinv'⟩ := arrGet_fail hh (fuel_ok b body) hinv hi (Or.inl hs)
    exact ⟨Or.inl rfl, _, by simp only [Node.getAtIndex]; exact hres, hinv'⟩
  | some cp =>
    cases hhd : readHdr b cp with
    | none =>
      right
      obtain ⟨elems', e', hres, hinv'⟩ := arrGet_fail hh (fuel_ok b body) hinv hi (Or.inr ⟨cp, hs, hhd⟩)
      exact ⟨Or.inr ⟨cp, rfl, hhd⟩, _, by simp only [Node.getAtIndex]; exact hres, hinv'⟩
    | some hd =>
      left
      obtain ⟨elems', e', hres, hinv', c, hc, hci⟩ := arrGet_ok hh (fuel_ok b body) hinv hi hs hhd
      exact ⟨cp, hd, _, c, rfl, hhd, by simp only [Node.getAtIndex]; exact hres, hinv', by simp only [Node.child?]; exact hc, hci⟩

theorem getAtIndex_obj_tot {b : Bytes} {p len body i : Nat} {m : Node} (hinv : Inv b p m)
    (hh : readHdr b p = some (.map len body)) (hi : i < len) :
    (∃ kp ko kl ke hd m' c, specPair b p i = some (kp, ko, kl, ke, hd) ∧
        m.getAtIndex b (eagerFuel b) i = (m', .at i) ∧ m.getKeyAtIndex b (eagerFuel b) i = (m', .at i) ∧
        Inv b p m' ∧ m'.child? (.val i) = some c ∧ Inv b ke c ∧
        m'.child? (.key i) = some (.scalar (.str ko kl))) ∨
    (specPair b p i = none ∧
      ∃ m', m.getAtIndex b (eagerFuel b) i = (m', .err ErrorCode_ReadError) ∧
        m.getKeyAtIndex b (eagerFuel b) i = (m', .err ErrorCode_ReadError) ∧ Inv b p m') := by
  obtain ⟨pairs, e, rfl⟩ := inv_map_form hinv hh
  have hkp : specKeyPos b p i = skipPairs b (eagerFuel b) i body := by
    simp only [specKeyPos, hh]; rw [if_pos hi]
  cases hsp : specPair b p i with
  | some x =>
    left
    obtain ⟨kp, ko, kl, ke, hd⟩ := x
    -- unpack `specPair`
    have hparts : skipPairs b (eagerFuel b) i body = some kp ∧ readHdr b kp = some (.scalar (.str ko kl) ke) ∧
        readHdr b ke = some hd := by
      simp only [specPair, hkp] at hsp
      cases hs : skipPairs b (eagerFuel b) i body with
      | none => rw [hs] at hsp; cases hsp
      | some kp' =>
        rw [hs] at hsp; simp only [] at hsp
        split at hsp
        · rename_i ko' kl' ke' hk
          cases hv : readHdr b ke' with
          | none => rw [hv] at hsp; cases hsp
          | some hd' =>
            rw [hv] at hsp; simp only [Option.some.injEq, Prod.mk.injEq] at hsp
            obtain ⟨rfl, rfl, rfl, rfl, rfl⟩ := hsp
            exact ⟨rfl, hk, hv⟩
        · cases hsp
    obtain ⟨pairs', e', hres, hinv', c, hc, hci⟩ := objGet_ok hh (fuel_ok b body) hinv hi hparts.1 hparts.2.1 hparts.2.2
    exact ⟨kp, ko, kl, ke, hd, _, c, rfl, by simp only [Node.getAtIndex]; exact hres,
      by simp only [Node.getKeyAtIndex]; exact hres, hinv', by simp only [Node.child?, hc], hci, by simp only [Node.child?, hc]⟩
  | none =>
    right
    have hfail : ∀ p' ko kl ke h, skipPairs b (eagerFuel b) i body = some p' →
        readHdr b p' = some (.scalar (.str ko kl) ke) → readHdr b ke = some h → False := by
      intro p' ko kl ke h h1 h2 h3
      simp only [specPair, hkp, h1, h2, h3] at hsp
      cases hsp
    obtain ⟨pairs', e', hres, hinv'⟩ := objGet_fail hh (fuel_ok b body) hinv hi hfail
    exact ⟨rfl, _, by simp only [Node.getAtIndex]; exact hres, by simp only [Node.getKeyAtIndex]; exact hres, hinv'⟩

theorem getProp_tot {b : Bytes} {p len body : Nat} {m : Node} (q : Bytes) (hinv : Inv b p m)
    (hh : readHdr b p = some (.map len body)) :
    ∃ m', Inv b p m' ∧
      ((∃ i ke c, specProp b (eagerFuel b) q len body 0 = .found i ke ∧ i < len ∧
          m.getProp b (eagerFuel b) q = (m', .at i) ∧ specChild b p (.val i) = some ke ∧
          m'.child? (.val i) = some c ∧ Inv b ke c) ∨
       (specProp b (eagerFuel b) q len body 0 = .missing ∧ m.getProp b (eagerFuel b) q = (m', .missing)) ∨
       (specProp b (eagerFuel b) q len body 0 = .err ∧ m.getProp b (eagerFuel b) q = (m', .err ErrorCode_ReadError))) := by
  obtain ⟨pairs, e, rfl⟩ := inv_map_form hinv hh
  by_cases hne : specProp b (eagerFuel b) q len body 0 = .err
  · obtain ⟨pairs', e', hres, hinv'⟩ := objProp_err hh (fuel_ok b body) hinv hne
    exact ⟨_, hinv', Or.inr (Or.inr ⟨hne, by simp only [Node.getProp]; exact hres⟩)⟩
  · obtain ⟨pairs', e', hinv', hcase⟩ := objProp_ok hh (fuel_ok b body) hinv hne
    refine ⟨_, hinv', ?_⟩
    rcases hcase with ⟨i, ke, hsp, hres, ko, kl, c, hc, hci⟩ | ⟨hsp, hres⟩
    · left
      obtain ⟨s', ko', kl', _, hlt, hsk, hks, _⟩ := specProp_found_pos len body 0 i ke hsp
      simp only [Nat.sub_zero] at hlt hsk
      have hkpos : specKeyPos b p i = some s' := by simp only [specKeyPos, hh]; rw [if_pos hlt]; exact hsk
      exact ⟨i, ke, c, hsp, hlt, by simp only [Node.getProp]; exact hres, by simp only [specChild, hkpos, hks],
        by simp only [Node.child?, hc], hci⟩
    · right; left
      exact ⟨hsp, by simp only [Node.getProp]; exact hres⟩

end SfVerif
