import SfVerif.Lemmas.Intern1
import SfVerif.Lemmas.DeShape
/-! Typed deserialisation reads through the same entry points: it leaves the interner alone too. -/
namespace SfVerif
open SfVerif.Gen

def DeFrame (t : Ty) : Prop := ∀ (c : Ctx) (v : RVal), (deTy c t v).1.interner = c.interner

theorem deElems_interner {t : Ty} (IH : DeFrame t) (v : RVal) :
    ∀ (k i : Nat) (c : Ctx), (deElems c t v i k).1.interner = c.interner := by
  intro k
  induction k with
  | zero => intro i c; rw [deElems]
  | succ k ih =>
    intro i c
    rw [deElems]
    have h1 := Ctx.getAtIndex_interner c v.toScope i
    generalize c.getAtIndex v.toScope i = r1 at h1
    obtain ⟨c1, child⟩ := r1
    simp only [] at h1 ⊢
    have h2 := IH c1 child
    generalize deTy c1 t child = r2 at h2
    obtain ⟨c2, o⟩ := r2
    cases o with
    | none => simp only []; rw [h2, h1]
    | some x =>
      simp only [] at h2 ⊢
      have h3 := ih (i + 1) c2
      generalize deElems c2 t v (i + 1) k = r3 at h3
      obtain ⟨c3, o3⟩ := r3
      cases o3 <;> (simp only [] at h3 ⊢; rw [h3, h2, h1])

theorem deTuple_interner (v : RVal) :
    ∀ (ts : List Ty), (∀ t ∈ ts, DeFrame t) → ∀ (i : Nat) (c : Ctx), (deTuple c ts v i).1.interner = c.interner := by
  intro ts
  induction ts with
  | nil => intro _ i c; rw [deTuple]
  | cons t ts ih =>
    intro IH i c
    rw [deTuple]
    have h1 := Ctx.getAtIndex_interner c v.toScope i
    generalize c.getAtIndex v.toScope i = r1 at h1
    obtain ⟨c1, child⟩ := r1
    simp only [] at h1 ⊢
    have h2 := IH t List.mem_cons_self c1 child
    generalize deTy c1 t child = r2 at h2
    obtain ⟨c2, o⟩ := r2
    cases o with
    | none => simp only []; rw [h2, h1]
    | some x =>
      simp only [] at h2 ⊢
      have h3 := ih (fun t' ht' => IH t' (List.mem_cons_of_mem _ ht')) (i + 1) c2
      generalize deTuple c2 ts v (i + 1) = r3 at h3
      obtain ⟨c3, o3⟩ := r3
      cases o3 <;> (simp only [] at h3 ⊢; rw [h3, h2, h1])

theorem dePairs_interner {t : Ty} (IH : DeFrame t) (v : RVal) :
    ∀ (k i : Nat) (c : Ctx), (dePairs c t v i k).1.interner = c.interner := by
  intro k
  induction k with
  | zero => intro i c; rw [dePairs]
  | succ k ih =>
    intro i c
    rw [dePairs]
    have h0 := Ctx.getKeyAtIndex_interner c v.toScope i
    generalize c.getKeyAtIndex v.toScope i = r0 at h0
    obtain ⟨c1, kv⟩ := r0
    simp only [] at h0 ⊢
    split
    · exact h0
    · have h1 := Ctx.getAtIndex_interner c1 v.toScope i
      generalize c1.getAtIndex v.toScope i = r1 at h1
      obtain ⟨c2, child⟩ := r1
      simp only [] at h1 ⊢
      have h2 := IH c2 child
      generalize deTy c2 t child = r2 at h2
      obtain ⟨c3, o⟩ := r2
      cases o with
      | none => simp only [] at h2 ⊢; rw [h2, h1, h0]
      | some x =>
        simp only [] at h2 ⊢
        have h3 := ih (i + 1) c3
        generalize dePairs c3 t v (i + 1) k = r3 at h3
        obtain ⟨c4, o3⟩ := r3
        cases o3 <;> (simp only [] at h3 ⊢; rw [h3, h2, h1, h0])

end SfVerif

namespace SfVerif
open SfVerif.Gen

theorem pair_fst_interner {α : Type} (r : Ctx × Option α) (c : Ctx) {β : Type} (f : α → β)
    (h : r.1.interner = c.interner) :
    (match r with | (c', Option.some x) => (c', Option.some (f x)) | (c', Option.none) => (c', (Option.none : Option β))).1.interner = c.interner := by
  obtain ⟨c', o⟩ := r
  cases o <;> exact h

theorem deTy_interner_aux : ∀ (n : Nat) (t : Ty), sizeOf t ≤ n → DeFrame t := by
  intro n
  induction n with
  | zero => intro t h; cases t <;> simp at h
  | succ n ih =>
    intro t hsz c v
    cases t with
    | unit => rw [deTy_unit]
    | bool => rw [deTy_bool]
    | f64 => rw [deTy_f64]
    | str => rw [deTy_str]
    | char => rw [deTy_char]
    | int lo hi => rw [deTy_int]
    | opt t =>
      have IH : DeFrame t := ih t (by simp at hsz; omega)
      by_cases hv : v = .null
      · subst hv; rw [deTy_opt_null]
      · rw [deTy_opt c t v hv]
        have hh := IH c v
        generalize deTy c t v = r at hh ⊢
        obtain ⟨c', o⟩ := r
        cases o <;> exact hh
    | vec t =>
      have IH : DeFrame t := ih t (by simp at hsz; omega)
      cases v with
      | arr h len =>
        rw [deTy_vec_arr]
        have hh := deElems_interner IH (.arr h len) len 0 c
        generalize deElems c t (.arr h len) 0 len = r at hh ⊢
        obtain ⟨c', o⟩ := r
        cases o <;> exact hh
      | _ => rw [deTy_vec_other _ _ _ (by intro hh l; simp)]
    | arrN m t =>
      have IH : DeFrame t := ih t (by simp at hsz; omega)
      cases v with
      | arr h len =>
        rw [deTy_arrN_arr]
        split
        · rfl
        · have hh := deElems_interner IH (.arr h len) len 0 c
          generalize deElems c t (.arr h len) 0 len = r at hh ⊢
          obtain ⟨c', o⟩ := r
          cases o <;> exact hh
      | _ => rw [deTy_arrN_other _ _ _ _ (by intro hh l; simp)]
    | tup ts =>
      have IH : ∀ t ∈ ts, DeFrame t := fun t ht => ih t (by have := List.sizeOf_lt_of_mem ht; simp at hsz; omega)
      cases v with
      | arr h len =>
        rw [deTy_tup_arr]
        split
        · rfl
        · have hh := deTuple_interner (.arr h len) ts IH 0 c
          generalize deTuple c ts (.arr h len) 0 = r at hh ⊢
          obtain ⟨c', o⟩ := r
          cases o <;> exact hh
      | _ => rw [deTy_tup_other _ _ _ (by intro hh l; simp)]
    | map t =>
      have IH : DeFrame t := ih t (by simp at hsz; omega)
      cases v with
      | obj h len =>
        rw [deTy_map_obj]
        have hh := dePairs_interner IH (.obj h len) len 0 c
        generalize dePairs c t (.obj h len) 0 len = r at hh ⊢
        obtain ⟨c', o⟩ := r
        cases o <;> exact hh
      | _ => rw [deTy_map_other _ _ _ (by intro hh l; simp)]

theorem deTy_interner (t : Ty) : DeFrame t := deTy_interner_aux (sizeOf t) t (Nat.le_refl _)

theorem deRoot_interner (c : Ctx) (ty : Ty) : (deRoot c ty).1.interner = c.interner := by
  unfold deRoot
  have h1 := Ctx.inputGet_interner c
  generalize c.inputGet = r1 at h1
  obtain ⟨c1, v⟩ := r1
  simp only [] at h1 ⊢
  have h2 := deTy_interner ty c1 v
  generalize deTy c1 ty v = r2 at h2
  obtain ⟨c2, o⟩ := r2
  cases o <;> (simp only [] at h2 ⊢; rw [h2, h1])

end SfVerif
