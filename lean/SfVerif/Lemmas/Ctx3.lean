import SfVerif.Lemmas.Ctx2
/-! The read entry points, on any valid handle in any reachable context, answer exactly what
    `Spec/Read.lean` computes from the document bytes and the position. -/
namespace SfVerif
open SfVerif.Gen

/-- a returned box names a node that exists -/
def RVal.handleOK (c : Ctx) : RVal → Prop
  | .str h _ => (c.nodeAt? h).isSome
  | .arr h _ => (c.nodeAt? h).isSome
  | .obj h _ => (c.nodeAt? h).isSome
  | _ => True

/-- everything a read call may change, and what it must keep -/
structure ReadStepOK (c c' : Ctx) (rv : RVal) : Prop where
  inv : CInv c'
  input : c'.input = c.input
  interner : c'.interner = c.interner
  writer : c'.writer = c.writer
  logs : c'.logs = c.logs
  nroots : c'.roots.size = c.roots.size
  kept : HandlesKept c c'
  handle : rv.handleOK c'

theorem ReadStepOK.same {c : Ctx} (hc : CInv c) {rv : RVal} (h : rv.handleOK c) : ReadStepOK c c rv :=
  ⟨hc, rfl, rfl, rfl, rfl, rfl, HandlesKept.refl c, h⟩

theorem valueAt_eq {b : Bytes} {root : Nat} {path : Path} {cp : Nat} {n : Node}
    (hp : specPath b 0 path = some cp) (hinv : Inv b cp n) :
    Spec.valueAt b root path = Ctx.encodeNode { root := root, path := path } n := by
  obtain ⟨hd, hh⟩ := inv_hdr hinv
  simp only [Spec.valueAt, hp, hh]
  exact (encodeNode_of_shape (inv_shape hinv hh)).symm

theorem encodeNode_handleOK {c : Ctx} {h : Handle} {n : Node} (hn : c.nodeAt? h = some n) :
    (Ctx.encodeNode h n).handleOK c := by
  cases n with
  | scalar v =>
    cases v with
    | null => simp [Ctx.encodeNode, RVal.handleOK]
    | bool x => simp [Ctx.encodeNode, RVal.handleOK]
    | num x => simp only [Ctx.encodeNode]; split <;> simp [RVal.handleOK]
    | str o l => simp [Ctx.encodeNode, RVal.handleOK, hn]
  | arr l es e => simp [Ctx.encodeNode, RVal.handleOK, hn]
  | obj l ps e => simp [Ctx.encodeNode, RVal.handleOK, hn]

theorem nodeAt_child {c : Ctx} {h : Handle} {m n : Node} {s : PStep} (hm : c.nodeAt? h = some m)
    (hn : m.child? s = some n) : c.nodeAt? { root := h.root, path := h.path ++ [s] } = some n := by
  unfold Ctx.nodeAt? at hm ⊢
  cases hr : c.roots[h.root]? with
  | none => rw [hr] at hm; cases hm
  | some r =>
    rw [hr] at hm
    simp only [] at hm ⊢
    rw [getPath?_append, hm]; exact hn

/-- the common tail of the three mutating entry points once the handle has been accepted -/
theorem nodeOp_child {c : Ctx} (hc : CInv c) {h : Handle} {m : Node}
    (hm : c.nodeAt? h = some m) (hcomp : m.isComposite = true)
    {g : Node → Node × Got} (hg : NodeOpOK c.input g) (childStep : Nat → PStep)
    {pos : Nat} (hpos : specPath c.input 0 h.path = some pos)
    {m' : Node} {i cp : Nat} {cn : Node} (hres : g m = (m', .at i))
    (hsc : specChild c.input pos (childStep i) = some cp) (hchild : m'.child? (childStep i) = some cn)
    (hcinv : Inv c.input cp cn) :
    (c.nodeOp h g childStep).2 = Spec.valueAt c.input h.root (h.path ++ [childStep i]) ∧
    ReadStepOK c (c.nodeOp h g childStep).1 (c.nodeOp h g childStep).2 := by
  obtain ⟨h1, h2, h3, h4, h5, h6, h7, h8, h9⟩ := nodeOp_ok hc hm hcomp hg childStep
  rw [hres] at h8 h9
  simp only [hchild] at h9
  have hsp : specPath c.input 0 (h.path ++ [childStep i]) = some cp := by
    rw [specPath_append, hpos]; exact hsc
  refine ⟨by rw [h9, valueAt_eq hsp hcinv], ⟨h1, h2, h3, h4, h5, h6, h7, ?_⟩⟩
  rw [h9]
  exact encodeNode_handleOK (nodeAt_child h8 hchild)

/-- an answer that involves no child -/
theorem nodeOp_flat {c : Ctx} (hc : CInv c) {h : Handle} {m : Node}
    (hm : c.nodeAt? h = some m) (hcomp : m.isComposite = true)
    {g : Node → Node × Got} (hg : NodeOpOK c.input g) (childStep : Nat → PStep)
    {m' : Node} {got : Got} (hres : g m = (m', got)) (hflat : ∀ i, got ≠ .at i) :
    (c.nodeOp h g childStep).2 = (match got with | .err code => .err code | _ => .null) ∧
    ReadStepOK c (c.nodeOp h g childStep).1 (c.nodeOp h g childStep).2 := by
  obtain ⟨h1, h2, h3, h4, h5, h6, h7, h8, h9⟩ := nodeOp_ok hc hm hcomp hg childStep
  rw [hres] at h9
  cases got with
  | «at» i => exact absurd rfl (hflat i)
  | err code => simp only [] at h9; exact ⟨h9, ⟨h1, h2, h3, h4, h5, h6, h7, by rw [h9]; trivial⟩⟩
  | missing => simp only [] at h9; exact ⟨h9, ⟨h1, h2, h3, h4, h5, h6, h7, by rw [h9]; trivial⟩⟩

end SfVerif
