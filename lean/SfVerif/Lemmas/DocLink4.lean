import SfVerif.Lemmas.DocLink3
import SfVerif.Spec.Read
/-! The header-walk specification (`Spec/Read`) says what the decoded tree says. -/
namespace SfVerif
open SfVerif.Gen

theorem keyEq_iff {b : Bytes} {off len : Nat} {q : Bytes} (h : off + len ≤ b.size) :
    keyEq b off len q = true ↔ b.extract off (off + len) = q := by
  unfold keyEq
  constructor
  · intro hk
    simp only [Bool.and_eq_true, beq_iff_eq, List.all_eq_true, List.mem_range] at hk
    obtain ⟨hsz, hall⟩ := hk
    apply Array.ext
    · simp [Array.size_extract]; omega
    · intro i h1 h2
      have hi : i < len := by simp [Array.size_extract] at h1; omega
      have := hall i hi
      rw [getElem!_pos b (off + i) (by omega), getElem!_pos q i (by omega)] at this
      simp [Array.getElem_extract, this]
  · intro hq
    subst hq
    simp only [Bool.and_eq_true, beq_iff_eq, List.all_eq_true, List.mem_range]
    refine ⟨by simp [Array.size_extract]; omega, ?_⟩
    intro i hi
    rw [getElem!_pos b (off + i) (by omega), getElem!_pos _ i (by simp [Array.size_extract]; omega)]
    simp [Array.getElem_extract]

theorem box_of_hdr {b : Bytes} {hd : Hdr} {d : Doc} (h : HdrDoc b hd d) (hh : Handle) :
    Ctx.encodeNode hh (mkNode hd) = d.box hh := by
  cases hd with
  | scalar v e =>
    cases v with
    | null => cases d <;> simp [HdrDoc, Doc.numBits?] at h <;> rfl
    | bool x => cases d <;> simp [HdrDoc, Doc.numBits?] at h; subst h; rfl
    | num bits =>
      cases d <;> simp [HdrDoc, Doc.numBits?] at h <;> subst h <;> simp [mkNode, Ctx.encodeNode, Doc.box]
    | str off len =>
      cases d <;> simp [HdrDoc, Doc.numBits?] at h
      obtain ⟨rfl, hle⟩ := h
      simp [mkNode, Ctx.encodeNode, Doc.box, Array.size_extract]; omega
  | arr len body => cases d <;> simp [HdrDoc] at h; subst h; rfl
  | map len body => cases d <;> simp [HdrDoc] at h; subst h; rfl

theorem Doc.getPath?_append : ∀ (p : Path) (d : Doc) (s : PStep),
    d.getPath? (p ++ [s]) = (match d.getPath? p with | some m => m.child? s | none => none)
  | [], d, s => by
    simp only [List.nil_append, Doc.getPath?]
    cases d.child? s <;> rfl
  | t :: rest, d, s => by
    simp only [List.cons_append, Doc.getPath?]
    cases d.child? t with
    | none => rfl
    | some c => exact Doc.getPath?_append rest c s

/-- the whole input is one document `d` (string keys only) -/
structure Decodes (b : Bytes) (d : Doc) : Prop where
  dec : decodeAll b = some d
  keys : d.keysStr = true

theorem Decodes.at0 {b : Bytes} {d : Doc} (h : Decodes b d) : ∃ e, decodeAt b (eagerFuel b) 0 = some (d, e) := by
  have := h.dec
  unfold decodeAll at this
  cases hd : decodeAt b (b.size + 1) 0 with
  | none => rw [hd] at this; cases this
  | some x =>
    obtain ⟨d', e⟩ := x
    rw [hd] at this; simp only [] at this
    split at this
    · simp at this; subst this; exact ⟨e, hd⟩
    · cases this

/-- **a path in the decoded tree**: position, header and sub-document agree -/
theorem doc_at {b : Bytes} {d c : Doc} (h : Decodes b d) {path : Path} (hc : d.getPath? path = some c) :
    ∃ p f e hd, specPath b 0 path = some p ∧ decodeAt b f p = some (c, e) ∧ f ≤ eagerFuel b ∧ c.keysStr = true ∧
      readHdr b p = some hd ∧ HdrDoc b hd c := by
  obtain ⟨e0, h0⟩ := h.at0
  obtain ⟨p, f, e, hp, hdc, hf, hk⟩ := doc_path path (Nat.le_refl _) h0 h.keys hc
  obtain ⟨_, _, _, hd, hh, hdoc, _, _⟩ := dec_ok b f p c e hdc hk
  exact ⟨p, f, e, hd, hp, hdc, hf, hk, hh, hdoc⟩

/-- **the boxed value for a position is the boxed sub-document** -/
theorem valueAt_doc {b : Bytes} {d c : Doc} (h : Decodes b d) {path : Path} (hc : d.getPath? path = some c) (root : Nat) :
    Spec.valueAt b root path = c.box { root := root, path := path } := by
  obtain ⟨p, f, e, hd, hp, _, _, _, hh, hdoc⟩ := doc_at h hc
  simp only [Spec.valueAt, hp, hh]
  exact box_of_hdr hdoc _

theorem getAtIndex_doc {b : Bytes} {d c : Doc} (h : Decodes b d) {hh : Handle} (hc : d.getPath? hh.path = some c) (i : Nat) :
    Spec.getAtIndex b hh i = DocSpec.getAtIndex c hh i := by
  obtain ⟨p, f, e, hd, hp, hdc, hf, hk, hrd, hdoc⟩ := doc_at h hc
  have hhdr : Spec.hdrAt b hh = some hd := by simp only [Spec.hdrAt, hp, hrd]
  cases c with
  | arr xs =>
    cases hd with
    | arr len body =>
      simp only [HdrDoc] at hdoc
      simp only [Spec.getAtIndex, hhdr, DocSpec.getAtIndex]
      cases hx : xs[i]? with
      | none =>
        have : ¬ i < len := by rw [← hdoc]; intro hlt; rw [List.getElem?_eq_getElem hlt] at hx; cases hx
        rw [if_neg this]
      | some x =>
        have hi : i < len := by
          rw [← hdoc]
          cases hlt : decide (i < xs.length) with
          | true => simpa using hlt
          | false => have : xs.length ≤ i := by simpa using hlt
                     rw [List.getElem?_eq_none this] at hx; cases hx
        rw [if_pos hi]
        exact valueAt_doc h (by rw [Doc.getPath?_append, hc]; simpa [Doc.child?] using hx) _
    | scalar v ee => cases v <;> simp [HdrDoc, Doc.numBits?] at hdoc
    | map l bd => simp [HdrDoc] at hdoc
  | map ps =>
    cases hd with
    | map len body =>
      simp only [HdrDoc] at hdoc
      simp only [Spec.getAtIndex, hhdr, DocSpec.getAtIndex]
      cases hx : ps[i]? with
      | none =>
        have : ¬ i < len := by rw [← hdoc]; intro hlt; rw [List.getElem?_eq_getElem hlt] at hx; cases hx
        rw [if_neg this]
      | some x =>
        obtain ⟨kd, vd⟩ := x
        have hi : i < len := by
          rw [← hdoc]
          cases hlt : decide (i < ps.length) with
          | true => simpa using hlt
          | false => have : ps.length ≤ i := by simpa using hlt
                     rw [List.getElem?_eq_none this] at hx; cases hx
        rw [if_pos hi]
        exact valueAt_doc h (by rw [Doc.getPath?_append, hc]; simp [Doc.child?, hx]) _
    | scalar v ee => cases v <;> simp [HdrDoc, Doc.numBits?] at hdoc
    | arr l bd => simp [HdrDoc] at hdoc
  | nil => cases hd with
    | scalar v ee => simp [Spec.getAtIndex, hhdr, DocSpec.getAtIndex]
    | arr l bd => simp [HdrDoc] at hdoc
    | map l bd => simp [HdrDoc] at hdoc
  | bool x => cases hd with
    | scalar v ee => simp [Spec.getAtIndex, hhdr, DocSpec.getAtIndex]
    | arr l bd => simp [HdrDoc] at hdoc
    | map l bd => simp [HdrDoc] at hdoc
  | int z => cases hd with
    | scalar v ee => simp [Spec.getAtIndex, hhdr, DocSpec.getAtIndex]
    | arr l bd => simp [HdrDoc] at hdoc
    | map l bd => simp [HdrDoc] at hdoc
  | f32 v => cases hd with
    | scalar v ee => simp [Spec.getAtIndex, hhdr, DocSpec.getAtIndex]
    | arr l bd => simp [HdrDoc] at hdoc
    | map l bd => simp [HdrDoc] at hdoc
  | f64 v => cases hd with
    | scalar v ee => simp [Spec.getAtIndex, hhdr, DocSpec.getAtIndex]
    | arr l bd => simp [HdrDoc] at hdoc
    | map l bd => simp [HdrDoc] at hdoc
  | str bs => cases hd with
    | scalar v ee => simp [Spec.getAtIndex, hhdr, DocSpec.getAtIndex]
    | arr l bd => simp [HdrDoc] at hdoc
    | map l bd => simp [HdrDoc] at hdoc

end SfVerif
