import SfVerif.Lemmas.Lazy3
import SfVerif.Lemmas.Codes
/-! Indexed access to an array refines the eager walk: if the sequential decoder can reach the
    header of element `i`, `get_at_index(i)` answers with a correct view of exactly that value —
    from any correct partial view of the array. -/
namespace SfVerif

theorem NodeList.get?_snoc_last (init : NodeList) (n : Node) :
    (NodeList.snoc init n).get? init.length = some n := by
  simp [NodeList.get?, NodeList.length, NodeList.getRev?]

theorem NodeList.get?_snoc_lt (init : NodeList) (n : Node) (k : Nat) (h : k < init.length) :
    (NodeList.snoc init n).get? k = init.get? k := by
  have h1 : k < (NodeList.snoc init n).length := by simp [NodeList.length]; omega
  have h2 : (NodeList.snoc init n).length - 1 - k = (init.length - 1 - k) + 1 := by simp [NodeList.length]; omega
  unfold NodeList.get?
  rw [if_pos h1, if_pos h, h2, NodeList.getRev?]

theorem skipN_split {b : Bytes} {f : Nat} : ∀ (a r p x : Nat), skipN b f (a + r) p = some x →
    ∃ y, skipN b f a p = some y ∧ skipN b f r y = some x := by
  intro a
  induction a with
  | zero => intro r p x h; exact ⟨p, skipN_zero, by simpa using h⟩
  | succ a ih =>
    intro r p x h
    rw [show a + 1 + r = (a + r) + 1 by omega] at h
    obtain ⟨y, hy, hrest⟩ := skipN_succ_inv h
    obtain ⟨z, hz, hz2⟩ := ih r y x hrest
    exact ⟨z, by rw [skipN_some hy]; exact hz, hz2⟩

theorem skip_some_hdr {b : Bytes} {f pos e : Nat} (h : skip b f pos = some e) : ∃ hd, readHdr b pos = some hd := by
  cases f with
  | zero => simp [skip] at h
  | succ f =>
    cases hh : readHdr b pos with
    | none => rw [skip_none hh] at h; simp at h
    | some hd => exact ⟨hd, rfl⟩

/-- the in-progress state of an array's processed prefix (the two array cases of `Inv`) -/
def ArrSt (b : Bytes) (body len : Nat) (elems : NodeList) (e : Nat) : Prop :=
  (Pre b body elems e ∧ elems.length ≤ len) ∨
  (∃ init last, elems = .snoc init last ∧ Pre b body init e ∧ init.length + 1 ≤ len ∧
    last.isComposite = true ∧ Inv b e last)

theorem inv_arrSt {b : Bytes} {pos len body : Nat} {elems : NodeList} {e : Nat}
    (hh : readHdr b pos = some (.arr len body)) (h : Inv b pos (.arr len elems e)) : ArrSt b body len elems e := by
  cases h with
  | arrClosed hh' hle hp => rw [hh] at hh'; simp at hh'; obtain ⟨_, rfl⟩ := hh'; exact Or.inl ⟨hp, hle⟩
  | arrOpened hh' hle hp hc hl =>
    rw [hh] at hh'; simp at hh'; obtain ⟨_, rfl⟩ := hh'
    exact Or.inr ⟨_, _, rfl, hp, hle, hc, hl⟩

theorem arrSt_inv {b : Bytes} {pos len body : Nat} {elems : NodeList} {e : Nat}
    (hh : readHdr b pos = some (.arr len body)) (h : ArrSt b body len elems e) : Inv b pos (.arr len elems e) := by
  rcases h with ⟨hp, hle⟩ | ⟨init, last, rfl, hp, hle, hc, hl⟩
  · exact Inv.arrClosed hh hle hp
  · exact Inv.arrOpened hh hle hp hc hl

theorem fresh_inv {b : Bytes} {pos : Nat} {h : Hdr} (hh : readHdr b pos = some h) : Inv b pos (mkNode h) := by
  cases h with
  | scalar v e => exact Inv.scalar hh
  | arr l body => exact Inv.arrClosed hh (by simp [NodeList.length]) Pre.nil
  | map l body => exact Inv.objClosed hh (by simp [PairList.length]) PreP.nil

/-- one iteration of the scanning loop of `get_at_index`, when the eager walk reaches element `m` -/
theorem arrStep_ok {b : Bytes} {f body len : Nat} (hbody : body ≤ b.size) (hf : b.size - body < f)
    {elems : NodeList} {e : Nat} (hst : ArrSt b body len elems e)
    {cur : Nat} {h' : Hdr} (hcur : skipN b f elems.length body = some cur) (hh' : readHdr b cur = some h')
    (j : Nat) :
    ∃ elems'', elems''.length = elems.length ∧ Pre b body elems'' cur ∧
      arrGetLoop b f len elems e (j+1) = arrGetLoop b f len (.snoc elems'' (mkNode h')) (h'.endOr cur) j := by
  rcases hst with ⟨hp, hle0⟩ | ⟨init, last, rfl, hp, hle0, hc, hl⟩
  · -- every processed element is complete
    have hpf := pre_facts hp
    have hce : cur = e := by
      have := hpf.2.2 f hf; rw [hcur] at this; simpa using this
    subst hce
    cases hp with
    | nil =>
      refine ⟨.nil, rfl, Pre.nil, ?_⟩
      rw [arrGetLoop]; simp only [hh']
    | snoc hinit hdone =>
      rename_i init s last
      have hsf := pre_facts hinit
      have hdf := done_facts hdone
      have hskip : skip b f s = some cur := hdf.2.2 f (by omega)
      obtain ⟨last', hfin, hdone'⟩ := finish_done b f s last cur (done_inv hdone) hskip
      refine ⟨.snoc init last', by simp [NodeList.length], Pre.snoc hinit hdone', ?_⟩
      have : (if last.isComposite = true then some cur else none).getD cur = cur := by split <;> rfl
      rw [arrGetLoop]; simp only [hfin, this, hh']
  · -- the last processed element is an unfinished container starting at `e`
    have hsf := pre_facts hp
    have hcur' : skipN b f (init.length + 1) body = some cur := by simpa [NodeList.length] using hcur
    obtain ⟨y, hy, hrest⟩ := skipN_split init.length 1 body cur hcur'
    have hye : y = e := by have := hsf.2.2 f hf; rw [hy] at this; simpa using this
    subst hye
    obtain ⟨z, hz, hz2⟩ := skipN_succ_inv hrest
    rw [skipN_zero] at hz2; simp at hz2; subst hz2
    obtain ⟨last', hfin, hdone'⟩ := finish_done b f y last z hl hz
    refine ⟨.snoc init last', by simp [NodeList.length], Pre.snoc hp hdone', ?_⟩
    rw [arrGetLoop]; simp only [hfin, hc, if_true, Option.getD_some, hh']

/-- the state after pushing a fresh node for the header at `cur` -/
theorem arrSt_push {b : Bytes} {body len : Nat} {elems : NodeList} {cur : Nat} {h' : Hdr}
    (hp : Pre b body elems cur) (hm : elems.length + 1 ≤ len) (hh' : readHdr b cur = some h') :
    ArrSt b body len (.snoc elems (mkNode h')) (h'.endOr cur) := by
  cases h' with
  | scalar v x =>
    exact Or.inl ⟨Pre.snoc hp (Done.scalar hh'), by simpa [NodeList.length] using hm⟩
  | arr l bd =>
    exact Or.inr ⟨elems, _, rfl, hp, hm, rfl, fresh_inv hh'⟩
  | map l bd =>
    exact Or.inr ⟨elems, _, rfl, hp, hm, rfl, fresh_inv hh'⟩

/-- **the scanning loop refines the eager walk** -/
theorem arrGetLoop_ok {b : Bytes} {f body len : Nat} (hbody : body ≤ b.size) (hf : b.size - body < f) :
    ∀ (k : Nat) (elems : NodeList) (e : Nat), ArrSt b body len elems e → elems.length + k + 1 ≤ len →
      ∀ p h, skipN b f (elems.length + k) body = some p → readHdr b p = some h →
        ∃ elems' e', arrGetLoop b f len elems e (k+1) = (.arr len elems' e', .at (elems.length + k)) ∧
          ArrSt b body len elems' e' ∧ elems'.length = elems.length + k + 1 ∧
          ∃ c, elems'.get? (elems.length + k) = some c ∧ Inv b p c := by
  intro k
  induction k with
  | zero =>
    intro elems e hst hm p h hp hh
    obtain ⟨elems'', hl, hpre, hstep⟩ := arrStep_ok hbody hf hst (by simpa using hp) hh 0
    refine ⟨.snoc elems'' (mkNode h), h.endOr p, ?_, arrSt_push hpre (by omega) hh, by simp [NodeList.length, hl], ?_⟩
    · rw [hstep, arrGetLoop]; simp [NodeList.length, hl]
    · refine ⟨mkNode h, ?_, fresh_inv hh⟩
      have := NodeList.get?_snoc_last elems'' (mkNode h)
      rw [hl] at this; simpa using this
  | succ k ih =>
    intro elems e hst hm p h hp hh
    have hp' : skipN b f (elems.length + (k + 1)) body = some p := by simpa [Nat.add_assoc] using hp
    obtain ⟨cur, hcur, hrest⟩ := skipN_split elems.length (k+1) body p hp'
    obtain ⟨y, hy, _⟩ := skipN_succ_inv hrest
    obtain ⟨h', hh'⟩ := skip_some_hdr hy
    obtain ⟨elems'', hl, hpre, hstep⟩ := arrStep_ok hbody hf hst hcur hh' (k+1)
    have hst' := arrSt_push (len := len) hpre (by omega) hh'
    have hlen' : (NodeList.snoc elems'' (mkNode h')).length = elems.length + 1 := by simp [NodeList.length, hl]
    obtain ⟨elems', e', hres, hst'', hlen'', c, hc, hinv⟩ :=
      ih (.snoc elems'' (mkNode h')) (h'.endOr cur) hst' (by rw [hlen']; omega) p h
        (by rw [hlen']; rw [show elems.length + 1 + k = elems.length + (k + 1) by omega]; exact hp') hh
    refine ⟨elems', e', ?_, hst'', by rw [hlen'', hlen']; omega, c, ?_, hinv⟩
    · rw [hstep, hres, hlen']; congr 2; omega
    · rw [hlen'] at hc; rw [show elems.length + (k + 1) = elems.length + 1 + k by omega]; exact hc


/-- every element of a complete prefix is a complete view of the value the eager walk finds at its index -/
theorem pre_get {b : Bytes} {p0 : Nat} {elems : NodeList} {s : Nat} (h : Pre b p0 elems s) :
    ∀ i, i < elems.length → ∃ c p e', elems.get? i = some c ∧ Done b p c e' ∧ p0 ≤ p ∧
      ∀ f, b.size - p0 < f → skipN b f i p0 = some p := by
  refine Pre.rec
    (motive_1 := fun _ _ _ _ => True)
    (motive_2 := fun p0 elems s _ => ∀ i, i < elems.length → ∃ c p e', elems.get? i = some c ∧ Done b p c e' ∧ p0 ≤ p ∧
      ∀ f, b.size - p0 < f → skipN b f i p0 = some p)
    (motive_3 := fun _ _ _ _ => True)
    ?_ ?_ ?_ ?_ ?_ ?_ ?_ h
  · intros; trivial
  · intros; trivial
  · intros; trivial
  · intro p0 i hi; simp [NodeList.length] at hi
  · intro p0 init s n s' hinit hdone ih _ i hi
    by_cases hlt : i < init.length
    · obtain ⟨c, p, e', hc, hd, hp, hsk⟩ := ih i hlt
      exact ⟨c, p, e', by rw [NodeList.get?_snoc_lt _ _ _ hlt]; exact hc, hd, hp, hsk⟩
    · have hieq : i = init.length := by simp [NodeList.length] at hi; omega
      subst hieq
      have hpf := pre_facts hinit
      exact ⟨n, s, s', NodeList.get?_snoc_last init n, hdone, hpf.1, hpf.2.2⟩
  · intros; trivial
  · intros; trivial

/-- **`get_at_index(i)` on an array refines the eager walk**: from any correct partial view of the
    array, if the sequential decoder reaches the header of element `i`, the call succeeds, leaves
    a correct partial view, and the node now stored at index `i` is a correct view of exactly
    the value at that offset -/
theorem arrGet_ok {b : Bytes} {f pos len body : Nat} (hh : readHdr b pos = some (.arr len body))
    (hf : b.size - body < f) {elems : NodeList} {e : Nat} (hinv : Inv b pos (.arr len elems e))
    {i : Nat} (hi : i < len) {p : Nat} {h : Hdr} (hp : skipN b f i body = some p) (hhp : readHdr b p = some h) :
    ∃ elems' e', arrGet b f len elems e i = (.arr len elems' e', .at i) ∧ Inv b pos (.arr len elems' e') ∧
      ∃ c, elems'.get? i = some c ∧ Inv b p c := by
  have hbody := (readHdr_arr_gt hh).2.1
  have hst := inv_arrSt hh hinv
  unfold arrGet
  rw [if_neg (by omega)]
  by_cases hfast : i < elems.length
  · rw [if_pos hfast]
    refine ⟨elems, e, rfl, hinv, ?_⟩
    rcases hst with ⟨hpre, _⟩ | ⟨init, last, rfl, hpre, _, _, hl⟩
    · obtain ⟨c, p', e', hc, hd, _, hsk⟩ := pre_get hpre i hfast
      have : p' = p := by have := hsk f hf; rw [hp] at this; simpa using this.symm
      subst this
      exact ⟨c, hc, done_inv hd⟩
    · by_cases hlt : i < init.length
      · obtain ⟨c, p', e', hc, hd, _, hsk⟩ := pre_get hpre i hlt
        have : p' = p := by have := hsk f hf; rw [hp] at this; simpa using this.symm
        subst this
        exact ⟨c, by rw [NodeList.get?_snoc_lt _ _ _ hlt]; exact hc, done_inv hd⟩
      · have hieq : i = init.length := by simp [NodeList.length] at hfast; omega
        subst hieq
        have := (pre_facts hpre).2.2 f hf
        rw [hp] at this; simp at this; subst this
        exact ⟨last, NodeList.get?_snoc_last init last, hl⟩
  · rw [if_neg hfast]
    have hk : i + 1 - elems.length = (i - elems.length) + 1 := by omega
    rw [hk]
    obtain ⟨elems', e', hres, hst', _, c, hc, hcinv⟩ :=
      arrGetLoop_ok hbody hf (i - elems.length) elems e hst (by omega) p h
        (by rw [show elems.length + (i - elems.length) = i by omega]; exact hp) hhp
    rw [show elems.length + (i - elems.length) = i by omega] at hres hc
    exact ⟨elems', e', hres, arrSt_inv hh hst', c, hc, hcinv⟩

end SfVerif
