import SfVerif.Model.Doc
/-! Byte-level lemmas: reading back what the encoders wrote, inside an arbitrary context
    `pre ++ … ++ post`. -/
namespace SfVerif

theorem extract_mid (pre mid post : List UInt8) :
    (pre ++ mid ++ post).toArray.extract pre.length (pre.length + mid.length) = mid.toArray := by
  apply Array.ext'
  simp [Array.toList_extract]

theorem getElem?_mid (pre : List UInt8) (m : UInt8) (rest : List UInt8) :
    (pre ++ m :: rest).toArray[pre.length]? = some m := by
  simp

theorem size_mid (pre mid post : List UInt8) : (pre ++ mid ++ post).toArray.size = pre.length + mid.length + post.length := by
  simp; omega

theorem beBytes_length (n v : Nat) : (beBytes n v).length = n := by simp [beBytes]

theorem natOfBE_1 (v : Nat) : natOfBE (beBytes 1 v) = v % 2 ^ 8 := by
  simp [natOfBE, beBytes, List.range, List.range.loop]
theorem natOfBE_2 (v : Nat) : natOfBE (beBytes 2 v) = v % 2 ^ 16 := by
  simp [natOfBE, beBytes, List.range, List.range.loop, Nat.shiftRight_eq_div_pow]
  omega
theorem natOfBE_4 (v : Nat) : natOfBE (beBytes 4 v) = v % 2 ^ 32 := by
  simp [natOfBE, beBytes, List.range, List.range.loop, Nat.shiftRight_eq_div_pow]
  omega
theorem natOfBE_8 (v : Nat) : natOfBE (beBytes 8 v) = v % 2 ^ 64 := by
  simp [natOfBE, beBytes, List.range, List.range.loop, Nat.shiftRight_eq_div_pow]
  omega

/-- reading `n` big-endian bytes that were written by `beBytes n v` -/
theorem beRead_mid (pre post : List UInt8) (n v : Nat) (hn : n = 1 ∨ n = 2 ∨ n = 4 ∨ n = 8) :
    beRead (pre ++ beBytes n v ++ post).toArray pre.length n = some (v % 2 ^ (8 * n)) := by
  unfold beRead
  have hsz : pre.length + n ≤ (pre ++ beBytes n v ++ post).toArray.size := by
    rw [size_mid, beBytes_length]; omega
  rw [if_pos hsz]
  have := extract_mid pre (beBytes n v) post
  rw [beBytes_length] at this
  rw [this]
  rcases hn with rfl | rfl | rfl | rfl
  · simp [natOfBE_1]
  · simp [natOfBE_2]
  · simp [natOfBE_4]
  · simp [natOfBE_8]

theorem strDoc_mid (pre post : List UInt8) (bs : Bytes) :
    strDoc (pre ++ bs.toList ++ post).toArray pre.length bs.size = some (.str bs, pre.length + bs.size) := by
  unfold strDoc
  have hsz : pre.length + bs.size ≤ (pre ++ bs.toList ++ post).toArray.size := by
    rw [size_mid]; simp
  rw [if_pos hsz]
  have := extract_mid pre bs.toList post
  simp only [Array.length_toList] at this
  rw [this]

end SfVerif
