import SfVerif.Gen.Markers
import SfVerif.Model.MsgPack
/-! The model's header reader is equal to the dispatch regenerated, arm by arm, from the
    `match marker` of `LazyValueRef::new` in provider/src/read/lazy_value_ref.rs. -/
namespace SfVerif
open SfVerif.Gen

theorem gen_hdrTagged_eq (b : Bytes) (p m : Nat) : hdrTaggedGen b p m = hdrTagged b p m := by
  unfold hdrTaggedGen hdrTagged
  split <;> first | rfl | (split <;> first | rfl | (exfalso; simp_all))

theorem gen_hdrOfMarker_eq (b : Bytes) (p m : Nat) : hdrOfMarkerGen b p m = hdrOfMarker b p m := by
  unfold hdrOfMarkerGen hdrOfMarker hdrFix
  rw [gen_hdrTagged_eq]

end SfVerif
