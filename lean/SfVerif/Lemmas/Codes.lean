import SfVerif.Gen.Enums
/-! the numeric values of the regenerated enums, as simp lemmas (each is `rfl` against Gen/Enums.lean) -/
namespace SfVerif.Gen
@[simp] theorem wr_ok : WriteResult_Ok = 0 := rfl
@[simp] theorem wr_io : WriteResult_IoError = 1 := rfl
@[simp] theorem wr_key : WriteResult_ExpectedKey = 2 := rfl
@[simp] theorem wr_objlen : WriteResult_ObjectLengthError = 3 := rfl
@[simp] theorem wr_already : WriteResult_ValueAlreadyWritten = 4 := rfl
@[simp] theorem wr_notobj : WriteResult_NotAnObject = 5 := rfl
@[simp] theorem wr_notfin : WriteResult_ValueNotFinished = 6 := rfl
@[simp] theorem wr_arrlen : WriteResult_ArrayLengthError = 7 := rfl
@[simp] theorem wr_notarr : WriteResult_NotAnArray = 8 := rfl
@[simp] theorem ec_decode : ErrorCode_DecodeError = 0 := rfl
@[simp] theorem ec_notobj : ErrorCode_NotAnObject = 1 := rfl
@[simp] theorem ec_bounds : ErrorCode_ByteArrayOutOfBounds = 2 := rfl
@[simp] theorem ec_read : ErrorCode_ReadError = 3 := rfl
@[simp] theorem ec_notarr : ErrorCode_NotAnArray = 4 := rfl
@[simp] theorem ec_oob : ErrorCode_IndexOutOfBounds = 5 := rfl
@[simp] theorem ec_notidx : ErrorCode_NotIndexable = 6 := rfl
@[simp] theorem ec_unknown : ErrorCode_Unknown = 7 := rfl
@[simp] theorem tag_null : Tag_Null = 0 := rfl
@[simp] theorem tag_bool : Tag_Bool = 1 := rfl
@[simp] theorem tag_number : Tag_Number = 2 := rfl
@[simp] theorem tag_string : Tag_String = 3 := rfl
@[simp] theorem tag_object : Tag_Object = 4 := rfl
@[simp] theorem tag_array : Tag_Array = 5 := rfl
@[simp] theorem tag_error : Tag_Error = 15 := by decide
end SfVerif.Gen
