import SfVerif.Lemmas.Lazy7
/-! The error direction: when the eager walk cannot decode the rest of a value,
    `finish_processing` reports an error and leaves a correct partial view behind. -/
namespace SfVerif
open SfVerif.Gen

theorem skipN_add {b : Bytes} {f : Nat} : ∀ (a r p : Nat),
    skipN b f (a + r) p = (match skipN b f a p with | some y => skipN b f r y | none => none) := by
  intro a
  induction a with
  | zero => intro r p; rw [Nat.zero_add, skipN_zero]
  | succ a ih =>
    intro r p
    rw [show a + 1 + r = (a + r) + 1 by omega]
    cases hs : skip b f p with
    | none => rw [skipN_none hs, skipN_none hs]
    | some y => rw [skipN_some hs, skipN_some hs]; exact ih r y

theorem skipPairs_add {b : Bytes} {f : Nat} : ∀ (a r p : Nat),
    skipPairs b f (a + r) p = (match skipPairs b f a p with | some y => skipPairs b f r y | none => none) := by
  intro a
  induction a with
  | zero => intro r p; rw [Nat.zero_add, skipPairs_zero]
  | succ a ih =>
    intro r p
    rw [show a + 1 + r = (a + r) + 1 by omega]
    rw [skipPairs, skipPairs]
    split
    · rename_i ko kl ke hk
      cases hs : skip b f ke with
      | none => rfl
      | some y => exact ih r y
    · rfl

/-- walking past a complete prefix: the eager walk from the container's body continues at the
    prefix's frontier -/
theorem pre_skipN {b : Bytes} {p0 : Nat} {elems : NodeList} {s : Nat} (h : Pre b p0 elems s)
    {f : Nat} (hf : b.size - p0 < f) (r : Nat) :
    skipN b f (elems.length + r) p0 = skipN b f r s := by
  rw [skipN_add, (pre_facts h).2.2 f hf]

theorem preP_skipPairs {b : Bytes} {p0 : Nat} {pairs : PairList} {s : Nat} (h : PreP b p0 pairs s)
    {f : Nat} (hf : b.size - p0 < f) (r : Nat) :
    skipPairs b f (pairs.length + r) p0 = skipPairs b f r s := by
  rw [skipPairs_add, (preP_facts h).2.2 f hf]

/-- the statement of `finish_fail` at one fuel level -/
def FinishFail (b : Bytes) (f : Nat) : Prop :=
  ∀ pos n, Inv b pos n → b.size - pos < f → skip b f pos = none →
    ∃ n', Node.finish b f n = (n', .err) ∧ Inv b pos n' ∧ n'.isComposite = n.isComposite

theorem fresh_fail {b : Bytes} {f : Nat} (IH : FinishFail b f) {s : Nat} {h : Hdr}
    (hh : readHdr b s = some h) (hf : b.size - s < f) (hy : skip b f s = none) :
    ∃ n', Node.finish b f (mkNode h) = (n', .err) := by
  obtain ⟨n', h1, _⟩ := IH s (mkNode h) (fresh_inv hh) hf hy
  exact ⟨n', h1⟩

theorem arrLoop_fail {b : Bytes} {f : Nat} (IHf : FinishFail b f) {p0 : Nat} (hf : b.size - p0 < f) :
    ∀ k len elems s, Pre b p0 elems s → skipN b f k s = none →
      ∃ elems' e', arrFinLoop b f len elems s k = (.arr len elems' e', .err) ∧ Pre b p0 elems' e' ∧
        elems'.length < elems.length + k := by
  intro k
  induction k with
  | zero => intro len elems s _ hs; rw [skipN_zero] at hs; cases hs
  | succ k ih =>
    intro len elems s hpre hs
    have hps := (pre_facts hpre).1
    rw [arrFinLoop]
    cases hh : readHdr b s with
    | none => exact ⟨elems, s, rfl, hpre, by omega⟩
    | some h =>
      simp only []
      cases hy : skip b f s with
      | none =>
        obtain ⟨n', hfin⟩ := fresh_fail IHf hh (by omega) hy
        rw [hfin]
        exact ⟨elems, s, rfl, hpre, by omega⟩
      | some y =>
        obtain ⟨n', oe, hfin, hoe, hdone⟩ := finish_fresh (finish_done b f) hh hy
        rw [skipN_some hy] at hs
        obtain ⟨elems', e', hl, hp, hlen⟩ := ih len (.snoc elems n') y (Pre.snoc hpre hdone) hs
        rw [hfin]
        simp only [hoe]
        exact ⟨elems', e', hl, hp, by simp [NodeList.length] at hlen; omega⟩

theorem objLoop_fail {b : Bytes} {f : Nat} (IHf : FinishFail b f) {p0 : Nat} (hf : b.size - p0 < f) :
    ∀ k len pairs s, PreP b p0 pairs s → skipPairs b f k s = none →
      ∃ pairs' e', objFinLoop b f len pairs s k = (.obj len pairs' e', .err) ∧ PreP b p0 pairs' e' ∧
        pairs'.length < pairs.length + k := by
  intro k
  induction k with
  | zero => intro len pairs s _ hs; rw [skipPairs_zero] at hs; cases hs
  | succ k ih =>
    intro len pairs s hpre hs
    have hps := (preP_facts hpre).1
    rw [objFinLoop]
    split
    · rename_i ko kl ke hk
      have hke := (readHdr_scalar_gt hk).1
      cases hh : readHdr b ke with
      | none => exact ⟨pairs, s, rfl, hpre, by omega⟩
      | some h =>
        simp only []
        cases hy : skip b f ke with
        | none =>
          obtain ⟨n', hfin⟩ := fresh_fail IHf hh (by omega) hy
          rw [hfin]
          exact ⟨pairs, s, rfl, hpre, by omega⟩
        | some y =>
          obtain ⟨n', oe, hfin, hoe, hdone⟩ := finish_fresh (finish_done b f) hh hy
          rw [skipPairs_some hk hy] at hs
          obtain ⟨pairs', e', hl, hp, hlen⟩ := ih len (.snoc pairs ko kl n') y (PreP.snoc hpre hk hdone) hs
          rw [hfin]
          simp only [hoe]
          exact ⟨pairs', e', hl, hp, by simp [PairList.length] at hlen; omega⟩
    · exact ⟨pairs, s, rfl, hpre, by omega⟩

end SfVerif

namespace SfVerif
open SfVerif.Gen

/-- **finish_fail**: from any correct partial view, if the eager walk cannot decode the value,
    `finish_processing` reports an error and what it leaves behind is again a correct partial
    view (of the same kind) -/
theorem finish_fail (b : Bytes) : ∀ f, FinishFail b f := by
  intro f
  induction f with
  | zero => intro pos n _ hf _; omega
  | succ f IH =>
    intro pos n hinv hfuel hs
    have IHok := finish_done b f
    cases hinv with
    | scalar hh => rw [skip_scalar hh] at hs; cases hs
    | @arrClosed pos len body elems e0 hh hle hpre =>
      rw [skip_arr hh] at hs
      have hb := readHdr_arr_gt hh
      have hfb : b.size - body < f := by omega
      cases hpre with
      | nil =>
        obtain ⟨elems', e', hl, hp, hlen⟩ := arrLoop_fail IH hfb len len .nil body Pre.nil hs
        refine ⟨.arr len elems' e', by simp only [Node.finish, hl], Inv.arrClosed hh (by simp [NodeList.length] at hlen; omega) hp, rfl⟩
      | @snoc _ init s last _ hinit hdone =>
        have hlen1 : init.length + 1 ≤ len := by simpa [NodeList.length] using hle
        have hsf := pre_facts hinit
        have hdf := done_facts hdone
        have hsk : skip b f s = some e0 := hdf.2.2 f (by omega)
        obtain ⟨last', hfin, hdone'⟩ := IHok s last e0 (done_inv hdone) hsk
        have hs2 : skipN b f (len - (init.length + 1)) e0 = none := by
          have := pre_skipN (Pre.snoc hinit hdone) hfb (len - (init.length + 1))
          simp only [NodeList.length] at this
          rw [show init.length + 1 + (len - (init.length + 1)) = len by omega] at this
          rw [← this]; exact hs
        obtain ⟨elems', e', hl, hp, hlen⟩ :=
          arrLoop_fail IH hfb (len - (init.length + 1)) len (.snoc init last') e0 (Pre.snoc hinit hdone') hs2
        have : (if last.isComposite = true then some e0 else none).getD e0 = e0 := by split <;> rfl
        refine ⟨.arr len elems' e', by simp only [Node.finish, hfin, this, hl],
          Inv.arrClosed hh (by simp [NodeList.length] at hlen; omega) hp, rfl⟩
    | @arrOpened pos len body init last e0 hh hle hinit hcomp hlast =>
      rw [skip_arr hh] at hs
      have hb := readHdr_arr_gt hh
      have hfb : b.size - body < f := by omega
      have hsf := pre_facts hinit
      have hs1 : skipN b f ((len - (init.length + 1)) + 1) e0 = none := by
        have := pre_skipN hinit hfb ((len - (init.length + 1)) + 1)
        rw [show init.length + (len - (init.length + 1) + 1) = len by omega] at this
        rw [← this]; exact hs
      cases hy : skip b f e0 with
      | none =>
        obtain ⟨last', hfin, hinv', hc'⟩ := IH e0 last hlast (by omega) hy
        refine ⟨.arr len (.snoc init last') e0, by simp only [Node.finish, hfin],
          Inv.arrOpened hh hle hinit (by rw [hc']; exact hcomp) hinv', rfl⟩
      | some y =>
        rw [skipN_some hy] at hs1
        obtain ⟨last', hfin, hdone'⟩ := IHok e0 last y hlast hy
        obtain ⟨elems', e', hl, hp, hlen⟩ :=
          arrLoop_fail IH hfb (len - (init.length + 1)) len (.snoc init last') y (Pre.snoc hinit hdone') hs1
        refine ⟨.arr len elems' e', by simp only [Node.finish, hfin, hcomp, if_true, Option.getD_some, hl],
          Inv.arrClosed hh (by simp [NodeList.length] at hlen; omega) hp, rfl⟩
    | @objClosed pos len body pairs e0 hh hle hpre =>
      rw [skip_map hh] at hs
      have hb := readHdr_map_gt hh
      have hfb : b.size - body < f := by omega
      cases hpre with
      | nil =>
        obtain ⟨pairs', e', hl, hp, hlen⟩ := objLoop_fail IH hfb len len .nil body PreP.nil hs
        refine ⟨.obj len pairs' e', by simp only [Node.finish, hl], Inv.objClosed hh (by simp [PairList.length] at hlen; omega) hp, rfl⟩
      | @snoc _ init s ko kl ke last _ hinit hk hdone =>
        have hlen1 : init.length + 1 ≤ len := by simpa [PairList.length] using hle
        have hsf := preP_facts hinit
        have hkf := readHdr_scalar_gt hk
        have hdf := done_facts hdone
        have hsk : skip b f ke = some e0 := hdf.2.2 f (by omega)
        obtain ⟨last', hfin, hdone'⟩ := IHok ke last e0 (done_inv hdone) hsk
        have hs2 : skipPairs b f (len - (init.length + 1)) e0 = none := by
          have := preP_skipPairs (PreP.snoc hinit hk hdone) hfb (len - (init.length + 1))
          simp only [PairList.length] at this
          rw [show init.length + 1 + (len - (init.length + 1)) = len by omega] at this
          rw [← this]; exact hs
        obtain ⟨pairs', e', hl, hp, hlen⟩ :=
          objLoop_fail IH hfb (len - (init.length + 1)) len (.snoc init ko kl last') e0 (PreP.snoc hinit hk hdone') hs2
        have : (if last.isComposite = true then some e0 else none).getD e0 = e0 := by split <;> rfl
        refine ⟨.obj len pairs' e', by simp only [Node.finish, hfin, this, hl],
          Inv.objClosed hh (by simp [PairList.length] at hlen; omega) hp, rfl⟩
    | @objOpened pos len body init s ko kl ke last hh hle hinit hk hcomp hlast =>
      rw [skip_map hh] at hs
      have hb := readHdr_map_gt hh
      have hfb : b.size - body < f := by omega
      have hsf := preP_facts hinit
      have hkf := readHdr_scalar_gt hk
      have hs1 : skipPairs b f ((len - (init.length + 1)) + 1) s = none := by
        have := preP_skipPairs hinit hfb ((len - (init.length + 1)) + 1)
        rw [show init.length + (len - (init.length + 1) + 1) = len by omega] at this
        rw [← this]; exact hs
      cases hy : skip b f ke with
      | none =>
        obtain ⟨last', hfin, hinv', hc'⟩ := IH ke last hlast (by omega) hy
        refine ⟨.obj len (.snoc init ko kl last') ke, by simp only [Node.finish, hfin],
          Inv.objOpened hh hle hinit hk (by rw [hc']; exact hcomp) hinv', rfl⟩
      | some y =>
        rw [skipPairs_some hk hy] at hs1
        obtain ⟨last', hfin, hdone'⟩ := IHok ke last y hlast hy
        obtain ⟨pairs', e', hl, hp, hlen⟩ :=
          objLoop_fail IH hfb (len - (init.length + 1)) len (.snoc init ko kl last') y (PreP.snoc hinit hk hdone') hs1
        refine ⟨.obj len pairs' e', by simp only [Node.finish, hfin, hcomp, if_true, Option.getD_some, hl],
          Inv.objClosed hh (by simp [PairList.length] at hlen; omega) hp, rfl⟩

end SfVerif
