import SfVerif.Gen.FnsNanBox
import SfVerif.Model.NanBox
/-! The hand-written model functions are *equal* to the definitions regenerated from the source
    text by the translator (`extract/rs2lean.py`): a change to one of these function bodies in
    /repo changes the regenerated definition and breaks the equality here. -/
namespace SfVerif
open SfVerif.Gen

/-- `NanBox::encode` -/
theorem gen_encode_eq (w ptr len tag : Nat) : nanbox_encode w ptr len tag = NanBox.encode w ptr len tag := by
  unfold nanbox_encode NanBox.encode
  rfl

/-- `NanBox::number` (non-NaN doubles; the NaN case is the assertion, F4) -/
theorem gen_number_eq (w bits : Nat) (h : F64.isNaN bits = false) :
    NanBox.number w bits = some (nanbox_number w bits) := by
  unfold NanBox.number nanbox_number
  simp [h]

theorem decide_ne_eq_bne (a b : Nat) : decide (a ≠ b) = (a != b) := by
  by_cases h : a = b <;> simp [h]

theorem decide_ne_eq_bne' (a b : Nat) : decide (b ≠ a) = (a != b) := by
  by_cases h : a = b
  · subst h; simp
  · have h' : ¬ b = a := fun e => h e.symm
    simp [h, h']

/-- strum's `ErrorCode::from_repr(x).unwrap_or(Unknown)` over the regenerated discriminants is the
    model's `errorCodeOf` -/
theorem gen_errorCode_eq (x : Nat) : errorCodeFromRepr x = NanBox.errorCodeOf x := by
  unfold errorCodeFromRepr NanBox.errorCodeOf
  have hU : ErrorCode_Unknown = 7 := by decide
  have hany : (ErrorCode_table.any fun p => p.2 == x) = true ↔ x ≤ 7 := by
    simp only [ErrorCode_table, ErrorCode_DecodeError, ErrorCode_NotAnObject, ErrorCode_ByteArrayOutOfBounds,
      ErrorCode_ReadError, ErrorCode_NotAnArray, ErrorCode_IndexOutOfBounds, ErrorCode_NotIndexable,
      ErrorCode_Unknown, List.any_cons, List.any_nil, Bool.or_false, Bool.or_eq_true, beq_iff_eq]
    omega
  by_cases hx : x < ErrorCode_Unknown
  · rw [if_pos hx, if_pos (hany.2 (by omega))]
  · rw [if_neg hx]
    by_cases h7 : x = 7
    · rw [if_pos (hany.2 (by omega)), h7, hU]
    · rw [if_neg (fun h => h7 (by have := hany.1 h; omega))]

theorem tagFromVal_some (t : Nat) (h : NanBox.knownTag t = true) : tagFromVal t = some t := by
  unfold tagFromVal
  rw [if_pos]
  simp only [NanBox.knownTag, Bool.or_eq_true, beq_iff_eq] at h
  simp only [Tag_table, List.any_cons, List.any_nil, Bool.or_false, Bool.or_eq_true, beq_iff_eq]
  omega

theorem tagFromVal_none (t : Nat) (h : NanBox.knownTag t = false) : tagFromVal t = none := by
  unfold tagFromVal
  rw [if_neg]
  simp only [NanBox.knownTag, Bool.or_eq_false_iff, beq_eq_false_iff_ne] at h
  simp only [Tag_table, List.any_cons, List.any_nil, Bool.or_false, Bool.or_eq_true, beq_iff_eq]
  omega

theorem and_pointer_mask_mod (w x : Nat) : (x &&& POINTER_MASK w) % 2 ^ w = x &&& POINTER_MASK w := by
  apply Nat.mod_eq_of_lt
  simp only [POINTER_MASK, VALUE_ENCODING_SIZE, Nat.one_shiftLeft, Nat.and_two_pow_sub_one_eq_mod]
  exact Nat.mod_lt _ (Nat.two_pow_pos w)

/-- `NanBox::try_decode` (with `NanBox::tag` inlined), at every pointer width; on the 32-bit target a
    `Val` is a `u64` -/
theorem gen_try_decode_eq (w v : Nat) (hv : w = 32 → v < 2 ^ 64) :
    nanbox_try_decode w v = NanBox.tryDecode w v := by
  unfold nanbox_try_decode NanBox.tryDecode
  split
  · -- a double
    by_cases hw : w = 32
    · subst hw
      have h0 : F64_OFFSET 32 = 0 := by decide
      simp only [if_true, h0, Nat.shiftRight_zero, Nat.mod_eq_of_lt (hv rfl)]
    · simp only [if_neg hw]
  · simp only [and_pointer_mask_mod]
    generalize ((v &&& PAYLOAD_MASK w) >>> VALUE_SIZE w) = t
    cases hk : NanBox.knownTag t
    · rw [tagFromVal_none t hk]
      simp only [NanBox.knownTag, Bool.or_eq_false_iff, beq_eq_false_iff_ne] at hk
      obtain ⟨⟨⟨⟨⟨⟨h1, h2⟩, h3⟩, h4⟩, h5⟩, h6⟩, h7⟩ := hk
      simp only [if_neg h1, if_neg h2, if_neg h3, if_neg h4, if_neg h5, if_neg h6, if_neg h7]
    · rw [tagFromVal_some t hk]
      simp only [gen_errorCode_eq]
      simp only [NanBox.knownTag, Bool.or_eq_true, beq_iff_eq] at hk
      by_cases h2 : t = Tag_Bool
      · simp only [if_pos h2]
        congr 2
        first | exact decide_ne_eq_bne _ _ | exact decide_ne_eq_bne' _ _
      · simp only [if_neg h2]
        by_cases h1 : t = Tag_Null
        · simp only [if_pos h1]
        · simp only [if_neg h1]
          by_cases h3 : t = Tag_Number
          · simp only [if_pos h3]
          · simp only [if_neg h3]
            by_cases h6 : t = Tag_Array
            · simp only [if_pos h6]
            · simp only [if_neg h6]
              by_cases h4 : t = Tag_String
              · simp only [if_pos h4]
              · simp only [if_neg h4]
                by_cases h5 : t = Tag_Object
                · simp only [if_pos h5]
                · simp only [if_neg h5]
                  by_cases h7 : t = Tag_Error
                  · simp only [if_pos h7]
                  · exfalso; omega

end SfVerif
