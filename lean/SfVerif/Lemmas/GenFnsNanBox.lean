import SfVerif.Gen.FnsNanBox
import SfVerif.Model.NanBox
/-! The hand-written model functions are *equal* to the definitions regenerated from the source
    text by the translator (`extract/rs2lean.py`): a change to one of these function bodies in
    /repo changes the regenerated definition and breaks the equality here. -/
namespace SfVerif
open SfVerif.Gen

/-- `NanBox::encode` -/
theorem gen_encode_eq (w ptr len tag : Nat) : nanbox_encode w ptr len tag = NanBox.encode w ptr len tag := by
  unfold nanbox_encode NanBox.encode
  rfl

/-- `NanBox::number` (non-NaN doubles; the NaN case is the assertion, F4) -/
theorem gen_number_eq (w bits : Nat) (h : F64.isNaN bits = false) :
    NanBox.number w bits = some (nanbox_number w bits) := by
  unfold NanBox.number nanbox_number
  simp [h]

end SfVerif
