import SfVerif.Lemmas.Codec3
import SfVerif.Spec.TypedDoc
/-! **decode ∘ encode**: the eager decoder reads back exactly the tree whose canonical encoding
    was written, in any byte context (so nested values and trailing bytes are covered). -/
namespace SfVerif

macro "fin_match" : tactic => `(tactic| first | rfl | (generalize decodeN _ _ _ _ = r; cases r <;> rfl) | (generalize decodePairs _ _ _ _ = r; cases r <;> rfl))

theorem dec_arr_hdr (pre rest : List UInt8) (len f : Nat) (hl : len < 2 ^ 32) :
    decodeAt (pre ++ encArrLen len ++ rest).toArray (f + 1) pre.length =
      (match decodeN (pre ++ encArrLen len ++ rest).toArray f len (pre.length + (encArrLen len).length) with
       | none => none
       | some (xs, e) => some (.arr xs, e)) := by
  unfold encArrLen
  have hm : len % 2 ^ 32 = len := Nat.mod_eq_of_lt hl
  simp only [hm]
  by_cases h1 : len < 16
  · simp only [h1, if_true]
    rw [decodeAt]
    have hg : (pre ++ [UInt8.ofNat (144 + len)] ++ rest).toArray[pre.length]? = some (UInt8.ofNat (144 + len)) := by simp
    rw [hg]
    simp only [u8_toNat_ofNat _ (show 144 + len < 256 by omega),
      markerOf_fixarr _ (show 144 ≤ 144 + len by omega) (show 144 + len < 160 by omega)]
    rw [show 144 + len - 144 = len by omega]
    simp only [List.length_cons, List.length_nil, List.append_assoc, List.cons_append, List.nil_append, Nat.zero_add]
    fin_match
  · simp only [h1, if_false]
    by_cases h2 : len < 65536
    · simp only [h2, if_true]
      obtain ⟨g1, g2⟩ := dec_payload pre rest 0xdc 2 len f (by simp)
      rw [decodeAt, g1]
      have hmk : markerOf (0xdc : UInt8).toNat = .arrN 2 := by rfl
      simp only [hmk, g2]
      rw [Nat.mod_eq_of_lt (by simpa using h2)]
      simp [beBytes_length, Nat.add_assoc]
      fin_match
    · simp only [h2, if_false]
      obtain ⟨g1, g2⟩ := dec_payload pre rest 0xdd 4 len f (by simp)
      rw [decodeAt, g1]
      have hmk : markerOf (0xdd : UInt8).toNat = .arrN 4 := by rfl
      simp only [hmk, g2]
      rw [Nat.mod_eq_of_lt (by simpa using hl)]
      simp [beBytes_length, Nat.add_assoc]
      fin_match

theorem dec_map_hdr (pre rest : List UInt8) (len f : Nat) (hl : len < 2 ^ 32) :
    decodeAt (pre ++ encMapLen len ++ rest).toArray (f + 1) pre.length =
      (match decodePairs (pre ++ encMapLen len ++ rest).toArray f len (pre.length + (encMapLen len).length) with
       | none => none
       | some (ps, e) => some (.map ps, e)) := by
  unfold encMapLen
  have hm : len % 2 ^ 32 = len := Nat.mod_eq_of_lt hl
  simp only [hm]
  by_cases h1 : len < 16
  · simp only [h1, if_true]
    rw [decodeAt]
    have hg : (pre ++ [UInt8.ofNat (128 + len)] ++ rest).toArray[pre.length]? = some (UInt8.ofNat (128 + len)) := by simp
    rw [hg]
    simp only [u8_toNat_ofNat _ (show 128 + len < 256 by omega),
      markerOf_fixmap _ (show 128 ≤ 128 + len by omega) (show 128 + len < 144 by omega)]
    rw [show 128 + len - 128 = len by omega]
    simp only [List.length_cons, List.length_nil, List.append_assoc, List.cons_append, List.nil_append, Nat.zero_add]
    fin_match
  · simp only [h1, if_false]
    by_cases h2 : len < 65536
    · simp only [h2, if_true]
      obtain ⟨g1, g2⟩ := dec_payload pre rest 0xde 2 len f (by simp)
      rw [decodeAt, g1]
      have hmk : markerOf (0xde : UInt8).toNat = .mapN 2 := by rfl
      simp only [hmk, g2]
      rw [Nat.mod_eq_of_lt (by simpa using h2)]
      simp [beBytes_length, Nat.add_assoc]
      fin_match
    · simp only [h2, if_false]
      obtain ⟨g1, g2⟩ := dec_payload pre rest 0xdf 4 len f (by simp)
      rw [decodeAt, g1]
      have hmk : markerOf (0xdf : UInt8).toNat = .mapN 4 := by rfl
      simp only [hmk, g2]
      rw [Nat.mod_eq_of_lt (by simpa using hl)]
      simp [beBytes_length, Nat.add_assoc]
      fin_match

mutual
/-- values the write calls can describe: integers an i64/u64 encoder accepts, 64-bit doubles,
    strings and containers whose lengths fit the 32-bit headers -/
def wfV : TVal → Bool
  | .unit => true
  | .none => true
  | .bool _ => true
  | .int z => decide (-9223372036854775808 ≤ z) && decide (z < 18446744073709551616)
  | .f64 b => decide (b < 2 ^ 64)
  | .str bs => decide (bs.size < 2 ^ 32)
  | .chr bs => decide (bs.size < 2 ^ 32)
  | .some v => wfV v
  | .seq vs => decide (vs.length < 2 ^ 32) && wfList vs
  | .tup vs => decide (vs.length < 2 ^ 32) && wfList vs
  | .map ps => decide (ps.length < 2 ^ 32) && wfPairs ps
def wfList : List TVal → Bool
  | [] => true
  | v :: vs => wfV v && wfList vs
def wfPairs : List (Bytes × TVal) → Bool
  | [] => true
  | (k, v) :: ps => decide (k.size < 2 ^ 32) && wfV v && wfPairs ps
end

mutual
def TVal.depth : TVal → Nat
  | .some v => v.depth
  | .seq vs => TVal.depthList vs + 1
  | .tup vs => TVal.depthList vs + 1
  | .map ps => TVal.depthPairs ps + 1
  | _ => 0
def TVal.depthList : List TVal → Nat
  | [] => 0
  | v :: vs => max v.depth (TVal.depthList vs)
def TVal.depthPairs : List (Bytes × TVal) → Nat
  | [] => 0
  | (_, v) :: ps => max v.depth (TVal.depthPairs ps)
end

theorem assoc3 (a b c d : List UInt8) : a ++ (b ++ c) ++ d = (a ++ b) ++ c ++ d := by simp

mutual
theorem decOK : ∀ (v : TVal) (pre post : List UInt8) (f : Nat), wfV v = true → v.depth < f →
    decodeAt (pre ++ v.enc ++ post).toArray f pre.length = some (v.doc, pre.length + v.enc.length)
  | .unit, pre, post, f+1, _, _ => by simpa [TVal.enc, TVal.doc, encNil] using dec_nil pre post f
  | .none, pre, post, f+1, _, _ => by simpa [TVal.enc, TVal.doc, encNil] using dec_nil pre post f
  | .bool b, pre, post, f+1, _, _ => by simpa [TVal.enc, TVal.doc, encBool] using dec_bool pre post b f
  | .int z, pre, post, f+1, h, _ => by
    simp only [wfV, Bool.and_eq_true, decide_eq_true_eq] at h
    simpa [TVal.enc, TVal.doc] using dec_sint pre post z f h.1 h.2
  | .f64 x, pre, post, f+1, h, _ => by
    simp only [wfV, decide_eq_true_eq] at h
    simpa [TVal.enc, TVal.doc, encF64, beBytes_length] using dec_f64 pre post x h f
  | .str bs, pre, post, f+1, h, _ => by
    simp only [wfV, decide_eq_true_eq] at h
    simpa [TVal.enc, TVal.doc] using dec_str pre post bs f h
  | .chr bs, pre, post, f+1, h, _ => by
    simp only [wfV, decide_eq_true_eq] at h
    simpa [TVal.enc, TVal.doc] using dec_str pre post bs f h
  | .some v, pre, post, f, h, hd => by
    simp only [wfV] at h
    simp only [TVal.depth] at hd
    simpa [TVal.enc, TVal.doc] using decOK v pre post f h hd
  | .seq vs, pre, post, f+1, h, hd => by
    simp only [wfV, Bool.and_eq_true, decide_eq_true_eq] at h
    simp only [TVal.depth] at hd
    rw [TVal.enc, TVal.doc, List.append_assoc pre, List.append_assoc (encArrLen vs.length), ← List.append_assoc pre,
      dec_arr_hdr pre (TVal.encList vs ++ post) vs.length f h.1]
    have := decListOK vs (pre ++ encArrLen vs.length) post f h.2 (by omega)
    rw [List.append_assoc (pre ++ encArrLen vs.length)] at this
    simp only [List.length_append] at this
    rw [this]
    simp [Nat.add_assoc]
  | .tup vs, pre, post, f+1, h, hd => by
    simp only [wfV, Bool.and_eq_true, decide_eq_true_eq] at h
    simp only [TVal.depth] at hd
    rw [TVal.enc, TVal.doc, List.append_assoc pre, List.append_assoc (encArrLen vs.length), ← List.append_assoc pre,
      dec_arr_hdr pre (TVal.encList vs ++ post) vs.length f h.1]
    have := decListOK vs (pre ++ encArrLen vs.length) post f h.2 (by omega)
    rw [List.append_assoc (pre ++ encArrLen vs.length)] at this
    simp only [List.length_append] at this
    rw [this]
    simp [Nat.add_assoc]
  | .map ps, pre, post, f+1, h, hd => by
    simp only [wfV, Bool.and_eq_true, decide_eq_true_eq] at h
    simp only [TVal.depth] at hd
    rw [TVal.enc, TVal.doc, List.append_assoc pre, List.append_assoc (encMapLen ps.length), ← List.append_assoc pre,
      dec_map_hdr pre (TVal.encPairs ps ++ post) ps.length f h.1]
    have := decPairsOK ps (pre ++ encMapLen ps.length) post f h.2 (by omega)
    rw [List.append_assoc (pre ++ encMapLen ps.length)] at this
    simp only [List.length_append] at this
    rw [this]
    simp [Nat.add_assoc]
  | .unit, _, _, 0, _, hd | .none, _, _, 0, _, hd | .bool _, _, _, 0, _, hd | .int _, _, _, 0, _, hd
  | .f64 _, _, _, 0, _, hd | .str _, _, _, 0, _, hd | .chr _, _, _, 0, _, hd | .seq _, _, _, 0, _, hd
  | .tup _, _, _, 0, _, hd | .map _, _, _, 0, _, hd => by omega
theorem decListOK : ∀ (vs : List TVal) (pre post : List UInt8) (f : Nat), wfList vs = true →
    TVal.depthList vs < f →
    decodeN (pre ++ TVal.encList vs ++ post).toArray f vs.length pre.length =
      some (TVal.docs vs, pre.length + (TVal.encList vs).length)
  | [], pre, post, f, _, _ => by simp [decodeN, TVal.encList, TVal.docs]
  | v :: vs, pre, post, f, h, hd => by
    simp only [wfList, Bool.and_eq_true] at h
    simp only [TVal.depthList] at hd
    rw [TVal.encList, TVal.docs, List.length_cons, decodeN]
    have h1 := decOK v pre (TVal.encList vs ++ post) f h.1 (by omega)
    have e1 : pre ++ (v.enc ++ TVal.encList vs) ++ post = pre ++ v.enc ++ (TVal.encList vs ++ post) := by simp
    rw [e1, h1]
    simp only []
    have h2 := decListOK vs (pre ++ v.enc) post f h.2 (by omega)
    have e2 : pre ++ v.enc ++ (TVal.encList vs ++ post) = pre ++ v.enc ++ TVal.encList vs ++ post := by simp
    rw [List.length_append] at h2
    rw [e2, h2]
    simp [Nat.add_assoc]
theorem decPairsOK : ∀ (ps : List (Bytes × TVal)) (pre post : List UInt8) (f : Nat), wfPairs ps = true →
    TVal.depthPairs ps < f →
    decodePairs (pre ++ TVal.encPairs ps ++ post).toArray f ps.length pre.length =
      some (TVal.docPairs ps, pre.length + (TVal.encPairs ps).length)
  | [], pre, post, f, _, _ => by simp [decodePairs, TVal.encPairs, TVal.docPairs]
  | (k, v) :: ps, pre, post, f+1, h, hd => by
    simp only [wfPairs, Bool.and_eq_true, decide_eq_true_eq] at h
    simp only [TVal.depthPairs] at hd
    rw [TVal.encPairs, TVal.docPairs, List.length_cons, decodePairs]
    have hk := dec_str pre (v.enc ++ TVal.encPairs ps ++ post) k f h.1.1
    have e1 : pre ++ (encStr k ++ v.enc ++ TVal.encPairs ps) ++ post = pre ++ encStr k ++ (v.enc ++ TVal.encPairs ps ++ post) := by simp
    rw [e1, hk]
    simp only []
    have h1 := decOK v (pre ++ encStr k) (TVal.encPairs ps ++ post) (f+1) h.1.2 (by omega)
    have e2 : pre ++ encStr k ++ (v.enc ++ TVal.encPairs ps ++ post) = pre ++ encStr k ++ v.enc ++ (TVal.encPairs ps ++ post) := by simp
    rw [e2]
    rw [List.length_append] at h1
    rw [h1]
    simp only []
    have h2 := decPairsOK ps (pre ++ encStr k ++ v.enc) post (f+1) h.2 (by omega)
    have e3 : pre ++ encStr k ++ v.enc ++ (TVal.encPairs ps ++ post) = pre ++ encStr k ++ v.enc ++ TVal.encPairs ps ++ post := by simp
    rw [e3]
    simp only [List.length_append] at h2
    rw [h2]
    simp [Nat.add_assoc]
  | (_, _) :: _, _, _, 0, _, hd => by omega
end

end SfVerif
