import SfVerif.Model.F64
/-! integers below 2^53 survive the trip through a double exactly -/
namespace SfVerif.F64

theorem log2_bounds (n : Nat) (h : n ≠ 0) : 2 ^ Nat.log2 n ≤ n ∧ n < 2 ^ (Nat.log2 n + 1) :=
  ⟨Nat.log2_self_le h, Nat.lt_log2_self⟩

/-- `ofNat` is exact below 2^53 -/
theorem toInt?_ofNat (n : Nat) (h : n < 2 ^ 53) : toInt? (ofNat n) = some (n : Int) := by
  by_cases h0 : n = 0
  · subst h0; decide
  · obtain ⟨hlo, hhi⟩ := log2_bounds n h0
    have he : Nat.log2 n ≤ 52 := by
      apply Nat.le_of_not_lt
      intro hc
      have : 2 ^ 53 ≤ 2 ^ Nat.log2 n := Nat.pow_le_pow_right (by decide) (by omega)
      omega
    generalize hE : Nat.log2 n = e at *
    -- X = n * 2^(52-e) lies in [2^52, 2^53)
    have hpow : 2 ^ e * 2 ^ (52 - e) = 2 ^ 52 := by rw [← Nat.pow_add]; congr 1; omega
    have hX1 : 2 ^ 52 ≤ n * 2 ^ (52 - e) := by
      rw [← hpow]; exact Nat.mul_le_mul_right _ hlo
    have hX2 : n * 2 ^ (52 - e) < 2 ^ 53 := by
      have : 2 ^ (e + 1) * 2 ^ (52 - e) = 2 ^ 53 := by rw [← Nat.pow_add]; congr 1; omega
      rw [← this]
      exact Nat.mul_lt_mul_of_lt_of_le hhi (Nat.le_refl _) (Nat.pow_pos (by decide))
    generalize hXdef : n * 2 ^ (52 - e) = X at *
    have hbits : ofNat n = (e + 1023) * 2 ^ 52 + (X - 2 ^ 52) := by
      unfold ofNat
      simp only [h0, if_false, hE, he, if_true, hXdef]
    rw [hbits]
    unfold toInt? expField manField signBit
    have h1 : ((e + 1023) * 2 ^ 52 + (X - 2 ^ 52)) / 2 ^ 52 % 2048 = e + 1023 := by omega
    have h2 : ((e + 1023) * 2 ^ 52 + (X - 2 ^ 52)) % 2 ^ 52 = X - 2 ^ 52 := by omega
    have h3 : ((e + 1023) * 2 ^ 52 + (X - 2 ^ 52)) / 2 ^ 63 % 2 = 0 := by omega
    simp only [h1, h2, h3]
    have hne1 : ¬ (e + 1023 = 2047) := by omega
    have hne2 : ¬ (e + 1023 = 0) := by omega
    simp only [hne1, hne2, if_false]
    have hmm : 2 ^ 52 + (X - 2 ^ 52) = X := by omega
    rw [hmm]
    by_cases h52 : e = 52
    · subst h52
      have : X = n := by rw [← hXdef]; simp
      simp [this]
    · have hlt : ¬ (1075 ≤ e + 1023) := by omega
      simp only [hlt, if_false]
      have hk : 1075 - (e + 1023) = 52 - e := by omega
      rw [hk, ← hXdef]
      have hmod : n * 2 ^ (52 - e) % 2 ^ (52 - e) = 0 := Nat.mul_mod_left _ _
      have hdiv : n * 2 ^ (52 - e) / 2 ^ (52 - e) = n := Nat.mul_div_cancel _ (Nat.pow_pos (by decide))
      simp only [hmod, if_true, hdiv]
      simp

/-- `ofInt` is exact for |z| < 2^53 -/
theorem toInt?_ofInt (z : Int) (h : z.natAbs < 2 ^ 53) : toInt? (ofInt z) = some z := by
  unfold ofInt
  by_cases hz : z < 0
  · simp only [hz, if_true]
    have hn := toInt?_ofNat z.natAbs h
    -- adding the sign bit negates the value
    have hlt : ofNat z.natAbs < 2 ^ 63 := by
      by_cases h0 : z.natAbs = 0
      · omega
      · obtain ⟨hlo, hhi⟩ := log2_bounds z.natAbs h0
        have he : Nat.log2 z.natAbs ≤ 52 := by
          apply Nat.le_of_not_lt
          intro hc
          have : 2 ^ 53 ≤ 2 ^ Nat.log2 z.natAbs := Nat.pow_le_pow_right (by decide) (by omega)
          omega
        unfold ofNat
        simp only [h0, if_false, he, if_true]
        have hpow : 2 ^ (Nat.log2 z.natAbs + 1) * 2 ^ (52 - Nat.log2 z.natAbs) = 2 ^ 53 := by
          rw [← Nat.pow_add]; congr 1; omega
        have hX2 : z.natAbs * 2 ^ (52 - Nat.log2 z.natAbs) < 2 ^ 53 := by
          rw [← hpow]
          exact Nat.mul_lt_mul_of_lt_of_le hhi (Nat.le_refl _) (Nat.pow_pos (by decide))
        generalize z.natAbs * 2 ^ (52 - Nat.log2 z.natAbs) = X at *
        generalize Nat.log2 z.natAbs = e at *
        omega
    generalize hB : ofNat z.natAbs = B at *
    unfold toInt? expField manField signBit at hn ⊢
    have e1 : (2 ^ 63 + B) / 2 ^ 52 % 2048 = B / 2 ^ 52 % 2048 := by omega
    have e2 : (2 ^ 63 + B) % 2 ^ 52 = B % 2 ^ 52 := by omega
    have e3 : (2 ^ 63 + B) / 2 ^ 63 % 2 = 1 := by omega
    have e4 : B / 2 ^ 63 % 2 = 0 := by omega
    simp only [e1, e2, e3] at ⊢
    simp only [e4] at hn
    have hzz : z.natAbs ≠ 0 := by omega
    -- the value read back from B is natAbs z; negate it
    revert hn
    simp only [show ((1 : Nat) = 1) = True from rfl |> eq_true, if_true,
      show ((0 : Nat) = 1) = False by simp, if_false]
    intro hn
    split at hn
    · cases hn
    · split at hn
      · split at hn
        · simp at hn; omega
        · cases hn
      · split at hn
        · simp only [Option.some.injEq] at hn ⊢
          simp only [*, if_false, if_true, Option.some.injEq]
          omega
        · split at hn
          · simp only [Option.some.injEq] at hn ⊢
            simp only [*, if_false, if_true, Option.some.injEq]
            omega
          · cases hn
  · simp only [hz, if_false]
    have : (z.toNat : Int) = z := Int.toNat_of_nonneg (by omega)
    have hlt : z.toNat < 2 ^ 53 := by omega
    rw [toInt?_ofNat z.toNat hlt, this]

end SfVerif.F64
