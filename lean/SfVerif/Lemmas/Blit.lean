import SfVerif.Model.Prelude
/-! `blitAt`: element-wise description and the consequences used by the interner, writer and ring proofs -/
namespace SfVerif

theorem blitAt_size (dst : Array UInt8) (off : Nat) (src : Bytes) (h : off + src.size ≤ dst.size) :
    (blitAt dst off src).size = dst.size := by
  unfold blitAt
  simp [h]
  omega

theorem blitAt_getElem? (dst : Array UInt8) (off : Nat) (src : Bytes) (i : Nat)
    (h : off + src.size ≤ dst.size) :
    (blitAt dst off src)[i]? =
      if i < off then dst[i]? else if i < off + src.size then src[i - off]? else dst[i]? := by
  unfold blitAt
  rw [if_pos h]
  simp only [Array.getElem?_append, Array.size_append, Array.size_extract, Array.getElem?_extract]
  have h1 : min off dst.size = off := by omega
  simp only [h1, Nat.sub_zero, Nat.zero_add]
  by_cases c1 : i < off
  · simp [c1]; omega
  · by_cases c2 : i < off + src.size
    · have : i < off + src.size := c2
      simp [c1, c2]
    · simp [c1, c2]
      have h3 : off + src.size + (i - (off + src.size)) = i := by omega
      rw [h3]
      split
      · rfl
      · have : dst.size ≤ i := by omega
        simp [Array.getElem?_eq_none this]

/-- writing `src` over freshly appended zeros gives `a ++ src` -/
theorem blitAt_append_replicate (a : Array UInt8) (src : Bytes) :
    blitAt (a ++ Array.replicate src.size 0) a.size src = a ++ src := by
  unfold blitAt
  have h : a.size + src.size ≤ (a ++ Array.replicate src.size (0 : UInt8)).size := by simp
  rw [if_pos h]
  apply Array.ext'
  simp [Array.toList_extract]

end SfVerif
