import SfVerif.Model.Wasm
/-! Symbolic execution of the trampoline's glue functions in the mini-Wasm, once and for all:
    each theorem assumes only the *shape* of the functions involved (a decidable check that is
    re-run against the regenerated Gen/Glue.lean), and holds for all arguments, both memories,
    every stack/locals context and every provider response. -/
namespace SfVerif.Wasm

/-- `memcpy_to_provider`: `memory.copy 0 1` (destination provider, source guest) -/
def toProvFn : Func :=
  { params := [0, 0, 0], results := [], locals := [],
    body := some [.localGet 0, .localGet 1, .localGet 2, .memCopy 0 1], imp := none }

/-- `memcpy_to_guest`: `memory.copy 1 0` -/
def toGuestFn : Func :=
  { params := [0, 0, 0], results := [], locals := [],
    body := some [.localGet 0, .localGet 1, .localGet 2, .memCopy 1 0], imp := none }

def importFn (mod name : List Nat) (ps rs : List Nat) : Func :=
  { params := ps, results := rs, locals := [], body := none, imp := some (mod, name) }

/-- the glue of `output_new_utf8_str` and of `intern_utf8_str` (same instruction sequence) -/
def strInFn (pf cp : Nat) : Func :=
  { params := [0, 0], results := [0], locals := [1],
    body := some [.localGet 1, .call pf, .localTee 2, .i64Const 32, .i64ShrU, .i32WrapI64,
                  .localGet 2, .i32WrapI64, .localGet 0, .localGet 1, .call cp],
    imp := none }

/-- **string in (output string / intern)**: the provider is asked with the length only, its
    64-bit answer is split into (high word returned to the guest, low word = destination), and
    exactly `len` bytes go from guest `ptr` to provider `dst`; the guest memory is untouched.
    (The copy is unconditional — see `C04_rejected_write_still_copies`.) -/
theorem strIn_exec (host : Host) (fs : List Func) (f pf cp : Nat) (mod name : List Nat) (fuel : Nat)
    (hf : fs[f]? = some (strInFn pf cp))
    (hpf : fs[pf]? = some (importFn mod name [0] [1]))
    (hcp : fs[cp]? = some toProvFn)
    (prov guest prov' : Mem) (ptr len v : Nat) (rest locals : List V) (calls : List (List Nat × List V))
    (hhost : host name [.i32 len] prov = some ([.i64 v], prov'))
    (hsrc : ptr + len ≤ guest.size) (hdst : v % 2 ^ 32 + len ≤ prov'.size) :
    exec host fs (fuel + 2) (.call f)
        { prov := prov, guest := guest, stack := .i32 len :: .i32 ptr :: rest, locals := locals, calls := calls } =
      .ok { prov := { prov' with byte := fun a =>
                        if v % 2 ^ 32 ≤ a ∧ a < v % 2 ^ 32 + len then guest.byte (ptr + (a - v % 2 ^ 32))
                        else prov'.byte a },
            guest := guest,
            stack := .i32 (v / 2 ^ 32 % 2 ^ 32) :: rest, locals := locals,
            calls := (name, [.i32 len]) :: calls } := by
  simp [exec, execList, hf, hpf, hcp, strInFn, importFn, toProvFn, hhost, zeroOf, St.mem, St.setMem,
    Mem.copyFrom, hsrc, hdst]


/-- the glue of `input_read_utf8_str` -/
def readStrFn (a c : Nat) : Func :=
  { params := [0, 0, 0], results := [], locals := [],
    body := some [.localGet 1, .localGet 0, .call a, .localGet 2, .call c], imp := none }

/-- **string out (read_utf8_str)**: the provider is asked for the address of the string behind
    `src`; exactly `len` bytes go from that provider address to guest `out` -/
theorem readStr_exec (host : Host) (fs : List Func) (f a c : Nat) (mod name : List Nat) (fuel : Nat)
    (hf : fs[f]? = some (readStrFn a c))
    (ha : fs[a]? = some (importFn mod name [0] [0]))
    (hc : fs[c]? = some toGuestFn)
    (prov guest prov' : Mem) (src out len addr : Nat) (rest locals : List V) (calls : List (List Nat × List V))
    (hhost : host name [.i32 src] prov = some ([.i32 addr], prov'))
    (hsrc : addr + len ≤ prov'.size) (hdst : out + len ≤ guest.size) :
    exec host fs (fuel + 2) (.call f)
        { prov := prov, guest := guest, stack := .i32 len :: .i32 out :: .i32 src :: rest, locals := locals, calls := calls } =
      .ok { prov := prov',
            guest := { guest with byte := fun x =>
                        if out ≤ x ∧ x < out + len then prov'.byte (addr + (x - out)) else guest.byte x },
            stack := rest, locals := locals,
            calls := (name, [.i32 src]) :: calls } := by
  simp [exec, execList, hf, ha, hc, readStrFn, importFn, toGuestFn, hhost, St.mem, St.setMem,
    Mem.copyFrom, hsrc, hdst]

/-- the `alloc` wrapper the trampoline emits -/
def allocFn (ai : Nat) : Func :=
  { params := [0], results := [0], locals := [], body := some [.localGet 0, .call ai], imp := none }

/-- the glue of `input_get_obj_prop` -/
def getPropFn (al cp pf : Nat) : Func :=
  { params := [1, 0, 0], results := [1], locals := [0],
    body := some [.localGet 2, .call al, .localTee 3, .localGet 1, .localGet 2, .call cp,
                  .localGet 0, .localGet 3, .localGet 2, .call pf],
    imp := none }

/-- **property name in (get_obj_prop)**: the provider allocates `len` bytes, exactly the name's
    bytes go from guest `ptr` to that allocation, then the provider's lookup is called with the
    scope unchanged and its value is returned unchanged -/
theorem getProp_exec (host : Host) (fs : List Func) (f al ai cp pf : Nat) (mod allocName propName : List Nat) (fuel : Nat)
    (hf : fs[f]? = some (getPropFn al cp pf))
    (hal : fs[al]? = some (allocFn ai))
    (hai : fs[ai]? = some (importFn mod allocName [0] [0]))
    (hcp : fs[cp]? = some toProvFn)
    (hpf : fs[pf]? = some (importFn mod propName [1, 0, 0] [1]))
    (prov guest prov1 prov3 : Mem) (scope ptr len dst v : Nat) (rest locals : List V) (calls : List (List Nat × List V))
    (halloc : host allocName [.i32 len] prov = some ([.i32 dst], prov1))
    (hsrc : ptr + len ≤ guest.size) (hdst : dst + len ≤ prov1.size)
    (hprop : host propName [.i64 scope, .i32 dst, .i32 len]
        { prov1 with byte := fun a => if dst ≤ a ∧ a < dst + len then guest.byte (ptr + (a - dst)) else prov1.byte a }
        = some ([.i64 v], prov3)) :
    exec host fs (fuel + 3) (.call f)
        { prov := prov, guest := guest, stack := .i32 len :: .i32 ptr :: .i64 scope :: rest, locals := locals, calls := calls } =
      .ok { prov := prov3, guest := guest, stack := .i64 v :: rest, locals := locals,
            calls := (propName, [.i64 scope, .i32 dst, .i32 len]) :: (allocName, [.i32 len]) :: calls } := by
  simp [exec, execList, hf, hal, hai, hcp, hpf, getPropFn, allocFn, importFn, toProvFn, halloc, hprop, zeroOf,
    St.mem, St.setMem, Mem.copyFrom, hsrc, hdst]

/-- a scalar import after trampolining *is* the provider's function under the underscored name:
    arguments and results pass through unchanged, neither memory is touched by the glue -/
theorem renamed_exec (host : Host) (fs : List Func) (f : Nat) (mod name : List Nat) (ps rs : List Nat) (fuel : Nat)
    (hf : fs[f]? = some (importFn mod name ps rs))
    (prov guest prov' : Mem) (args results rest locals : List V) (calls : List (List Nat × List V))
    (hlen : args.length = ps.length)
    (hhost : host name args.reverse prov = some (results, prov')) :
    exec host fs (fuel + 1) (.call f)
        { prov := prov, guest := guest, stack := args ++ rest, locals := locals, calls := calls } =
      .ok { prov := prov', guest := guest, stack := results.reverse ++ rest, locals := locals,
            calls := (name, args.reverse) :: calls } := by
  have hl : ps.length = args.length := hlen.symm
  simp [exec, hf, importFn, hl, hhost]


/-- the glue of `log_new_utf8_str` -/
def logFn (pf cp : Nat) : Func :=
  { params := [0, 0], results := [], locals := [0, 0, 0, 0, 0, 0],
    body := some [.localGet 1, .call pf, .localTee 2, .i32Load 0 0, .localSet 3,
                  .localGet 2, .i32Load 0 4, .localSet 4,
                  .localGet 2, .i32Load 0 8, .localSet 5,
                  .localGet 4, .localGet 0, .localGet 3, .i32Add, .localTee 0, .localGet 5, .call cp,
                  .localGet 5, .localGet 1, .i32Ne,
                  .ifElse [.localGet 2, .i32Load 0 12, .localSet 6,
                           .localGet 2, .i32Load 0 16, .localSet 7,
                           .localGet 6, .localGet 0, .localGet 5, .i32Add, .localGet 7, .call cp] []],
    imp := none }

/-- provider memory after copying `n` guest bytes from `src` to `dst` -/
def provAfterCopy (prov guest : Mem) (dst src n : Nat) : Mem :=
  { prov with byte := fun a => if dst ≤ a ∧ a < dst + n then guest.byte (src + (a - dst)) else prov.byte a }

/-- **log, one segment** (the plan says `len1 = len`): the provider is asked with the length only
    and answers with the address of a five-word plan in its memory; `len1` bytes starting
    `srcOff` bytes into the message go to `dst1`; the second segment is skipped -/
theorem log_exec_one (host : Host) (fs : List Func) (f pf cp : Nat) (mod name : List Nat) (fuel : Nat)
    (hf : fs[f]? = some (logFn pf cp))
    (hpf : fs[pf]? = some (importFn mod name [0] [0]))
    (hcp : fs[cp]? = some toProvFn)
    (prov guest prov' : Mem) (ptr len addr so d1 : Nat) (rest locals : List V) (calls : List (List Nat × List V))
    (hhost : host name [.i32 len] prov = some ([.i32 addr], prov'))
    (h0 : prov'.load32 addr = some so) (h4 : prov'.load32 (addr + 4) = some d1)
    (h8 : prov'.load32 (addr + 8) = some len)
    (hsrc : (ptr + so) % 2 ^ 32 + len ≤ guest.size) (hdst : d1 + len ≤ prov'.size) :
    exec host fs (fuel + 2) (.call f)
        { prov := prov, guest := guest, stack := .i32 len :: .i32 ptr :: rest, locals := locals, calls := calls } =
      .ok { prov := provAfterCopy prov' guest d1 ((ptr + so) % 2 ^ 32) len,
            guest := guest, stack := rest, locals := locals, calls := (name, [.i32 len]) :: calls } := by
  simp [exec, execList, hf, hpf, hcp, logFn, importFn, toProvFn, hhost, zeroOf, St.mem, St.setMem,
    Mem.copyFrom, h0, h4, h8, hsrc, hdst, provAfterCopy]

/-- **log, two segments** (`len1 ≠ len`): after the first copy the remaining two plan words are
    read and `len2` further bytes, continuing where the first segment stopped, go to `dst2` -/
theorem log_exec_two (host : Host) (fs : List Func) (f pf cp : Nat) (mod name : List Nat) (fuel : Nat)
    (hf : fs[f]? = some (logFn pf cp))
    (hpf : fs[pf]? = some (importFn mod name [0] [0]))
    (hcp : fs[cp]? = some toProvFn)
    (prov guest prov' : Mem) (ptr len addr so d1 l1 d2 l2 : Nat) (rest locals : List V) (calls : List (List Nat × List V))
    (hhost : host name [.i32 len] prov = some ([.i32 addr], prov'))
    (h0 : prov'.load32 addr = some so) (h4 : prov'.load32 (addr + 4) = some d1)
    (h8 : prov'.load32 (addr + 8) = some l1) (hne : l1 ≠ len)
    (hsrc1 : (ptr + so) % 2 ^ 32 + l1 ≤ guest.size) (hdst1 : d1 + l1 ≤ prov'.size)
    (h12 : (provAfterCopy prov' guest d1 ((ptr + so) % 2 ^ 32) l1).load32 (addr + 12) = some d2)
    (h16 : (provAfterCopy prov' guest d1 ((ptr + so) % 2 ^ 32) l1).load32 (addr + 16) = some l2)
    (hsrc2 : (ptr + so + l1) % 2 ^ 32 + l2 ≤ guest.size) (hdst2 : d2 + l2 ≤ prov'.size) :
    exec host fs (fuel + 2) (.call f)
        { prov := prov, guest := guest, stack := .i32 len :: .i32 ptr :: rest, locals := locals, calls := calls } =
      .ok { prov := provAfterCopy (provAfterCopy prov' guest d1 ((ptr + so) % 2 ^ 32) l1) guest d2
                      ((ptr + so + l1) % 2 ^ 32) l2,
            guest := guest, stack := rest, locals := locals, calls := (name, [.i32 len]) :: calls } := by
  have hsz : (provAfterCopy prov' guest d1 ((ptr + so) % 2 ^ 32) l1).size = prov'.size := rfl
  simp [exec, execList, hf, hpf, hcp, logFn, importFn, toProvFn, hhost, zeroOf, St.mem, St.setMem,
    Mem.copyFrom, h0, h4, h8, hne, hsrc1, hdst1, hsrc2, hdst2]
  simp [provAfterCopy] at h12 h16 hsz ⊢
  simp [h12, h16, hsrc2, hdst2]

/-- a load that lies outside the copied range sees the old bytes (the convention that the plan
    words are disjoint from the segments makes `h12`/`h16` above facts about the provider's answer) -/
theorem load32_provAfterCopy_disjoint (prov guest : Mem) (dst src n a : Nat)
    (h : a + 4 ≤ dst ∨ dst + n ≤ a) :
    (provAfterCopy prov guest dst src n).load32 a = prov.load32 a := by
  unfold Mem.load32 provAfterCopy
  simp only []
  have h1 : ¬ (dst ≤ a ∧ a < dst + n) := by omega
  have h2 : ¬ (dst ≤ a + 1 ∧ a + 1 < dst + n) := by omega
  have h3 : ¬ (dst ≤ a + 2 ∧ a + 2 < dst + n) := by omega
  have h4 : ¬ (dst ≤ a + 3 ∧ a + 3 < dst + n) := by omega
  simp only [h1, h2, h3, h4, if_false]

end SfVerif.Wasm
