import SfVerif.Model.Typed
import SfVerif.Gen.DeInt
/-! C10 — integer deserialisation is exact or fails.
    `deInt lo hi x` is the guard of `impl_deserialize_for_int!` on the double with bits `x`
    (`n.trunc() == n && n >= MIN as f64 && n <= MAX as f64`, then the saturating cast). -/
namespace SfVerif.Props.C10
open SfVerif SfVerif.Gen

/-- the bounds of an integer type survive the trip through `as f64` exactly -/
def BoundsExact (lo hi : Int) : Prop :=
  F64.toInt? (F64.ofInt lo) = some lo ∧ F64.toInt? (F64.ofInt hi) = some hi

/-- for a type whose bounds are exactly representable: `Ok(r)` iff the double is an integer whose
    exact value is `r` and lies in the range (soundness and completeness, every double) -/
theorem deInt_exact_of_bounds (lo hi : Int) (hb : BoundsExact lo hi) (x : Nat) (r : Int) :
    deInt lo hi x = some r ↔ (F64.toInt? x = some r ∧ lo ≤ r ∧ r ≤ hi) := by
  obtain ⟨hlo, hhi⟩ := hb
  unfold deInt
  cases hx : F64.toInt? x with
  | none => simp
  | some z =>
    simp only [hlo, hhi]
    by_cases hr : lo ≤ z ∧ z ≤ hi
    · simp only [hr, and_self, if_true, Option.some.injEq]
      have : satCast lo hi z = z := by
        unfold satCast
        split
        · omega
        · split <;> omega
      rw [this]
      constructor
      · intro h; subst h; exact ⟨rfl, hr.1, hr.2⟩
      · intro h; exact h.1
    · simp only [hr, if_false]
      constructor
      · intro h; cases h
      · intro h; exfalso; apply hr; have := Option.some.inj h.1; subst this; exact ⟨h.2.1, h.2.2⟩

theorem bounds_i8 : BoundsExact (-128) 127 := by unfold BoundsExact; decide +kernel
theorem bounds_i16 : BoundsExact (-32768) 32767 := by unfold BoundsExact; decide +kernel
theorem bounds_i32 : BoundsExact (-2147483648) 2147483647 := by unfold BoundsExact; decide +kernel
theorem bounds_u8 : BoundsExact 0 255 := by unfold BoundsExact; decide +kernel
theorem bounds_u16 : BoundsExact 0 65535 := by unfold BoundsExact; decide +kernel
theorem bounds_u32 : BoundsExact 0 4294967295 := by unfold BoundsExact; decide +kernel

/-- **C10 for i8, i16, i32, u8, u16, u32 (and isize/usize on 32-bit targets)**: exact or rejected -/
theorem C10_exact_small_types (x : Nat) (r : Int) :
    (deInt (-128) 127 x = some r ↔ F64.toInt? x = some r ∧ -128 ≤ r ∧ r ≤ 127) ∧
    (deInt (-32768) 32767 x = some r ↔ F64.toInt? x = some r ∧ -32768 ≤ r ∧ r ≤ 32767) ∧
    (deInt (-2147483648) 2147483647 x = some r ↔ F64.toInt? x = some r ∧ -2147483648 ≤ r ∧ r ≤ 2147483647) ∧
    (deInt 0 255 x = some r ↔ F64.toInt? x = some r ∧ 0 ≤ r ∧ r ≤ 255) ∧
    (deInt 0 65535 x = some r ↔ F64.toInt? x = some r ∧ 0 ≤ r ∧ r ≤ 65535) ∧
    (deInt 0 4294967295 x = some r ↔ F64.toInt? x = some r ∧ 0 ≤ r ∧ r ≤ 4294967295) :=
  ⟨deInt_exact_of_bounds _ _ bounds_i8 x r, deInt_exact_of_bounds _ _ bounds_i16 x r,
   deInt_exact_of_bounds _ _ bounds_i32 x r, deInt_exact_of_bounds _ _ bounds_u8 x r,
   deInt_exact_of_bounds _ _ bounds_u16 x r, deInt_exact_of_bounds _ _ bounds_u32 x r⟩

/-- the 64-bit types: `MIN as f64` is exact, `MAX as f64` rounds up to `MAX + 1` -/
theorem bounds_64 :
    F64.toInt? (F64.ofInt (-9223372036854775808)) = some (-9223372036854775808) ∧
    F64.toInt? (F64.ofInt 9223372036854775807) = some 9223372036854775808 ∧
    F64.toInt? (F64.ofInt 0) = some 0 ∧
    F64.toInt? (F64.ofInt 18446744073709551615) = some 18446744073709551616 := by decide +kernel

/-- a type whose upper bound rounds up to `hi + 1`: still exact for every double except the one
    whose value is `hi + 1` -/
theorem deInt_exact_of_rounded_hi (lo hi : Int) (hlo : F64.toInt? (F64.ofInt lo) = some lo)
    (hhi : F64.toInt? (F64.ofInt hi) = some (hi + 1)) (x : Nat) (r : Int)
    (hne : F64.toInt? x ≠ some (hi + 1)) :
    deInt lo hi x = some r ↔ (F64.toInt? x = some r ∧ lo ≤ r ∧ r ≤ hi) := by
  unfold deInt
  cases hx : F64.toInt? x with
  | none => simp
  | some z =>
    have hz : z ≠ hi + 1 := fun h => hne (by rw [hx, h])
    simp only [hlo, hhi]
    by_cases hr : lo ≤ z ∧ z ≤ hi + 1
    · simp only [hr, and_self, if_true, Option.some.injEq]
      have : satCast lo hi z = z := by
        unfold satCast
        split
        · omega
        · split <;> omega
      rw [this]
      constructor
      · intro h; subst h; exact ⟨rfl, hr.1, by omega⟩
      · intro h; exact h.1
    · simp only [hr, if_false]
      constructor
      · intro h; cases h
      · intro h; exfalso; apply hr; have := Option.some.inj h.1; subst this; exact ⟨h.2.1, by omega⟩

/-- **C10 for i64 / u64 (isize / usize on 64-bit), partial**: exact or rejected for every double
    other than 2^63 (resp. 2^64). The full statement is false at that one point — see
    `C10_i64_counterexample`, `C10_u64_counterexample` (known findings F9). -/
theorem C10_exact_partial_64 (x : Nat) (r : Int) :
    (F64.toInt? x ≠ some 9223372036854775808 →
      (deInt (-9223372036854775808) 9223372036854775807 x = some r ↔
        F64.toInt? x = some r ∧ -9223372036854775808 ≤ r ∧ r ≤ 9223372036854775807)) ∧
    (F64.toInt? x ≠ some 18446744073709551616 →
      (deInt 0 18446744073709551615 x = some r ↔
        F64.toInt? x = some r ∧ 0 ≤ r ∧ r ≤ 18446744073709551615)) :=
  ⟨fun h => deInt_exact_of_rounded_hi _ _ bounds_64.1 bounds_64.2.1 x r h,
   fun h => deInt_exact_of_rounded_hi _ _ bounds_64.2.2.1 bounds_64.2.2.2 x r h⟩

/-- the excluded point: the double 2^63 deserialises into i64 as `i64::MAX` (silently clamped) -/
theorem C10_i64_counterexample :
    F64.toInt? 0x43e0000000000000 = some 9223372036854775808 ∧
    deInt (-9223372036854775808) 9223372036854775807 0x43e0000000000000 = some 9223372036854775807 := by
  decide +kernel

/-- the excluded point: the double 2^64 deserialises into u64 as `u64::MAX` -/
theorem C10_u64_counterexample :
    F64.toInt? 0x43f0000000000000 = some 18446744073709551616 ∧
    deInt 0 18446744073709551615 0x43f0000000000000 = some 18446744073709551615 := by
  decide +kernel

/-- nothing fractional, infinite or NaN is ever accepted, for any integer type -/
theorem C10_non_integers_rejected (lo hi : Int) (x : Nat) (h : F64.toInt? x = none) :
    deInt lo hi x = none := by
  unfold deInt; rw [h]

/-- non-vacuity: 127.0 is accepted as i8, 128.0 and 127.5 are rejected -/
example : deInt (-128) 127 0x405fc00000000000 = some 127 ∧ deInt (-128) 127 0x4060000000000000 = none ∧
    deInt (-128) 127 0x405fe00000000000 = none := by decide +kernel

/-- bounds the exactness theorems cover: both exactly representable, or the upper one rounding up by one -/
def GoodBounds (lo hi : Int) : Prop :=
  (F64.toInt? (F64.ofInt lo) = some lo ∧ F64.toInt? (F64.ofInt hi) = some hi) ∨
  (F64.toInt? (F64.ofInt lo) = some lo ∧ F64.toInt? (F64.ofInt hi) = some (hi + 1))

instance (lo hi : Int) : Decidable (GoodBounds lo hi) := by unfold GoodBounds; exact inferInstance

/-- **tie by translation**: the model's `deInt` is the definition regenerated from the body of the
    `impl_deserialize_for_int!` macro in api/src/read.rs (integrality test, both bound comparisons with
    the operators as written, the cast), and every integer type the macro is instantiated for — at
    either pointer width — has bounds covered by `C10_exact_small_types` / `C10_exact_partial_64` -/
theorem C10_model_is_the_source_text :
    (∀ lo hi bits, deIntGen lo hi bits = deInt lo hi bits) ∧
    (∀ row ∈ deIntTypes, GoodBounds row.2.1 row.2.2.1 ∧ GoodBounds row.2.2.2.1 row.2.2.2.2) ∧
    deIntTypes.length = 10 := by
  refine ⟨fun _ _ _ => rfl, ?_, by decide +kernel⟩
  decide +kernel

/-- hence, for every instantiated type: `Ok(r)` iff the number is an integer with exact value `r` in
    range — for all doubles when the bounds are exact, for all doubles but `MAX + 1` otherwise -/
theorem C10_every_instantiated_type (lo hi : Int) (hg : GoodBounds lo hi) (x : Nat) (r : Int)
    (hne : F64.toInt? x ≠ some (hi + 1) ∨ F64.toInt? (F64.ofInt hi) = some hi) :
    deIntGen lo hi x = some r ↔ (F64.toInt? x = some r ∧ lo ≤ r ∧ r ≤ hi) := by
  rw [C10_model_is_the_source_text.1]
  rcases hg with ⟨h1, h2⟩ | ⟨h1, h2⟩
  · exact deInt_exact_of_bounds lo hi ⟨h1, h2⟩ x r
  · rcases hne with hne | hex
    · exact deInt_exact_of_rounded_hi lo hi h1 h2 x r hne
    · rw [h2] at hex; simp at hex; omega

end SfVerif.Props.C10
