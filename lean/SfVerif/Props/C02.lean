import SfVerif.Props.C03
import SfVerif.Lemmas.Codec5
import SfVerif.Lemmas.GenWriter
import SfVerif.Lemmas.PLang2
import SfVerif.Lemmas.Frame3
import SfVerif.Gen.WasmFinalize
import SfVerif.Lemmas.Sched
/-! C02 — a completed output document is exactly the value that was written. -/
namespace SfVerif.Props.C02
open SfVerif SfVerif.Gen

/-- no byte from a rejected call appears in the output: a rejected call leaves the bytes as they were -/
theorem C02_rejected_bytes_absent (w : Writer) (op : WOp) (h : (w.step op).2.1 ≠ WriteResult_Ok) :
    (w.step op).1.out = w.out := by
  rw [SfVerif.Props.C03.C03_reject_noop w op h]

/-- a rejected string write hands out no destination, so the caller's copy has nowhere to go -/
theorem C02_rejected_string_has_no_destination (w : Writer) (len : Nat)
    (h : (w.step (.strAlloc len)).2.1 ≠ WriteResult_Ok) : (w.step (.strAlloc len)).2.2 = none := by
  simp only [Writer.step] at h ⊢
  split
  · rfl
  · rename_i hr
    exfalso
    simp only [hr, if_false] at h

/-- and the glue then copies nothing: the whole string write is a no-op on the bytes -/
theorem C02_rejected_string_write_noop (w : Writer) (bs : Bytes)
    (h : (w.writeStr bs).2 ≠ WriteResult_Ok) : (w.writeStr bs).1 = w := by
  unfold Writer.writeStr at h ⊢
  have hn := SfVerif.Props.C03.C03_reject_noop w (.strAlloc bs.size)
  have hd := C02_rejected_string_has_no_destination w bs.size
  cases hs : w.step (.strAlloc bs.size) with
  | mk w' rest =>
    obtain ⟨r, off⟩ := rest
    rw [hs] at h hn hd
    cases off with
    | none => simp at h ⊢; exact hn h
    | some o => simp at h; have := hd h; simp at this

/-- finalisation returns the bytes only when the writer is in the completed state -/
theorem C02_finalize_only_when_complete (w : Writer) :
    (w.finalize).1 = WriteResult_Ok ↔ w.st = .done := by
  unfold Writer.finalize
  by_cases h : w.st = .done <;> simp [h]

/-- **the writer emits exactly the tree's canonical encoding**: from any position where a value
    may be written (the root, an array slot, an object value slot), the write calls that describe
    `v` are all accepted, append `v.enc` and nothing else, and advance the position by one value
    with the open-container stack as it was (`serOK`) -/
theorem C02_writes_append_exactly_the_encoding (v : TVal) (w : Writer) (h : GoodW w) :
    runAOps w v.ser = ({ out := w.out ++ v.enc.toArray, st := adv w.st, stack := w.stack }, WriteResult_Ok) :=
  serOK v w h

/-- **the eager decoder inverts the canonical encoding in any byte context**: with arbitrary bytes
    before and after, decoding at the value's start yields the tree and stops at its end -/
theorem C02_decode_encode (v : TVal) (pre post : List UInt8) (f : Nat) (h : wfV v = true)
    (hf : v.depth < f) :
    decodeAt (pre ++ v.enc ++ post).toArray f pre.length = some (v.doc, pre.length + v.enc.length) :=
  decOK v pre post f h hf

/-- **C02, positive direction, for every value tree**: writing `v` into a fresh output document
    is accepted call by call, ends in the completed state, finalisation returns the bytes, and the
    independent eager decoder reads those bytes back to exactly the tree `v` describes, with no
    byte left over. Quantified over all trees of any size and depth whose integers fit the 64-bit
    encoders and whose lengths fit the 32-bit headers (`wfV`). -/
theorem C02_completed_output_is_the_tree (v : TVal) (h : wfV v = true) :
    (runAOps {} v.ser).2 = WriteResult_Ok ∧ (runAOps {} v.ser).1.st = .done ∧
    (runAOps {} v.ser).1.stack = [] ∧
    (runAOps {} v.ser).1.finalize = (WriteResult_Ok, v.enc.toArray) ∧
    decodeAll (runAOps {} v.ser).1.out = some v.doc := by
  have hg : GoodW ({} : Writer) := ⟨trivial, fun _ => rfl⟩
  rw [serOK v {} hg]
  refine ⟨rfl, rfl, rfl, ?_, ?_⟩
  · simp [Writer.finalize, adv]
  · simpa using decodeAll_enc v h

/-- the hypotheses are satisfiable by a non-trivial tree (nested map/array/option/negative int) -/
example : wfV (.map [(#[0x61], .seq [.int (-5), .some (.str #[0x62, 0x63]), .none]),
                     (#[], .tup [.f64 0x3ff0000000000000, .bool true, .map []])]) = true := by
  simp [wfV, wfList, wfPairs]

/-- **tie by translation**: one provider write call of the model is equal to the step assembled,
    on every run, from what each write function of provider/src/write.rs consults (which method of
    the state machine) and emits (which rmp encoder, with which argument; the zero-filled string
    payload and its offset) -/
theorem C02_write_calls_are_the_source_text (w : Writer) (op : WOp) : writerStepGen w op = w.step op :=
  gen_writerStep_eq w op

/-- the ten exported write entry points hand their arguments to the methods above unchanged — the
    boolean flag as `!= 0`, the string allocation's (status, pointer) packed into one double-width
    word, an interned string as allocate + copy of the interned bytes (recognised by the translator on
    every run; a body it does not recognise is a broken translation obligation) -/
theorem C02_entry_points_recognised : writerEntryPoints.length = 10 := by decide +kernel

/-- one api-level write call: (writer afterwards, status) -/
def stepA (w : Writer) : AOp → Writer × Nat
  | .w op => ((w.step op).1, (w.step op).2.1)
  | .str bs => w.writeStr bs

/-- a history of api-level write calls that keeps going after rejected calls: the writer at the end
    and the calls that were accepted, in call order -/
def runKeep (w : Writer) : List AOp → Writer × List AOp
  | [] => (w, [])
  | op :: rest =>
    if (stepA w op).2 = WriteResult_Ok then
      ((runKeep (stepA w op).1 rest).1, op :: (runKeep (stepA w op).1 rest).2)
    else runKeep (stepA w op).1 rest

theorem stepA_reject_noop (w : Writer) (op : AOp) (h : (stepA w op).2 ≠ WriteResult_Ok) : (stepA w op).1 = w := by
  cases op with
  | w o => exact SfVerif.Props.C03.C03_reject_noop w o h
  | str bs => exact C02_rejected_string_write_noop w bs h

/-- **rejected calls leave no trace**: after any history, the writer is exactly where the accepted
    calls alone would have put it, and those are accepted one after the other -/
theorem C02_rejected_calls_leave_no_trace : ∀ (ops : List AOp) (w : Writer),
    (runAOps w (runKeep w ops).2).2 = WriteResult_Ok ∧ (runAOps w (runKeep w ops).2).1 = (runKeep w ops).1
  | [], w => ⟨rfl, rfl⟩
  | op :: rest, w => by
    rw [runKeep]
    by_cases hok : (stepA w op).2 = WriteResult_Ok
    · rw [if_pos hok]
      obtain ⟨h1, h2⟩ := C02_rejected_calls_leave_no_trace rest (stepA w op).1
      cases op with
      | w o =>
        simp only [stepA] at hok h1 h2 ⊢
        rw [runAOps]
        generalize hr : w.step o = r at hok h1 h2 ⊢
        obtain ⟨w', r', oo⟩ := r
        simp only [] at hok h1 h2 ⊢
        rw [if_neg (by simpa using hok)]
        exact ⟨h1, h2⟩
      | str bs =>
        simp only [stepA] at hok h1 h2 ⊢
        rw [runAOps]
        generalize hr : w.writeStr bs = r at hok h1 h2 ⊢
        obtain ⟨w', r'⟩ := r
        simp only [] at hok h1 h2 ⊢
        rw [if_neg (by simpa using hok)]
        exact ⟨h1, h2⟩
    · rw [if_neg hok, stepA_reject_noop w op hok]
      exact C02_rejected_calls_leave_no_trace rest w

/-- **C02, every history**: take any finite sequence of write calls (encodable payloads, strings
    written whole), accepted or rejected in any mixture. If the writer then reports the output complete,
    the accepted calls, in call order, are the serialisation of one value tree `v`; the output bytes are
    exactly its canonical MessagePack encoding — one well-formed value, nothing before or after — and
    the independent eager decoder reads them back to exactly the tree `v` describes. -/
theorem C02_every_history (ops : List AOp) (hw : ∀ op ∈ ops, op.wf = true)
    (hfin : ((runKeep {} ops).1.finalize).1 = WriteResult_Ok) :
    ∃ v : TVal, v.ser = (runKeep {} ops).2 ∧ wfV v = true ∧
      (runKeep {} ops).1.finalize = (WriteResult_Ok, v.enc.toArray) ∧
      decodeAll (runKeep {} ops).1.out = some v.doc := by
  obtain ⟨h1, h2⟩ := C02_rejected_calls_leave_no_trace ops {}
  have hsub : ∀ op ∈ (runKeep {} ops).2, op.wf = true := by
    have : ∀ (ops : List AOp) (w : Writer), ∀ op ∈ (runKeep w ops).2, op ∈ ops := by
      intro ops
      induction ops with
      | nil => intro w op h; simp [runKeep] at h
      | cons o rest ih =>
        intro w op h
        rw [runKeep] at h
        split at h
        · rcases List.mem_cons.mp h with rfl | h
          · exact List.mem_cons_self
          · exact List.mem_cons_of_mem _ (ih _ op h)
        · exact List.mem_cons_of_mem _ (ih _ op h)
    exact fun op hop => hw op (this ops {} op hop)
  rw [← h2] at hfin
  obtain ⟨v, hv, hwf⟩ := accepted_complete_is_ser _ hsub h1 hfin
  obtain ⟨_, _, _, g4, g5⟩ := C02_completed_output_is_the_tree v hwf
  refine ⟨v, hv, hwf, ?_, ?_⟩
  · rw [← h2, ← hv]; exact g4
  · rw [← h2, ← hv]; exact g5

/-- non-vacuity: a history with two rejected calls in it that ends complete -/
example : ((runKeep {} [.w .endArr, .w (.arr 2), .w (.bool true), .w .endArr, .str #[0x61], .w .endArr]).1.finalize).1 = WriteResult_Ok := by
  decide

theorem runKeep_snoc : ∀ (ops : List AOp) (w : Writer) (a : AOp),
    (runKeep w (ops ++ [a])).1 = (stepA (runKeep w ops).1 a).1
  | [], w, a => by
    simp only [List.nil_append, runKeep]
    split <;> rfl
  | op :: rest, w, a => by
    simp only [List.cons_append]
    rw [runKeep, runKeep]
    split
    · exact runKeep_snoc rest _ a
    · exact runKeep_snoc rest _ a

/-- the write calls a protocol operation issues (`t` = the thread before it): a restart clears the
    list; a string written by id is the string the id resolves to -/
def callsStep (t : Thread) (acc : List AOp) : Op → List AOp
  | .init _ | .deint _ _ | .de _ _ => []
  | .w api (.bool n) => if api && n > 1 then acc else acc ++ [.w (.bool (n != 0))]
  | .w _ .null => acc ++ [.w .null]
  | .w _ (.i32 z) => acc ++ [.w (.i32 z)]
  | .w _ (.f64 b) => acc ++ [.w (.f64 b)]
  | .w _ (.str bs) => acc ++ [.str bs]
  | .w _ (.istr id) => (match t.ctx.interner.get? id with | some bs => acc ++ [.str bs] | none => acc)
  | .w _ (.obj n) => acc ++ [.w (.obj n)]
  | .w _ .endobj => acc ++ [.w .endObj]
  | .w _ (.arr n) => acc ++ [.w (.arr n)]
  | .w _ .endarr => acc ++ [.w .endArr]
  | _ => acc

/-- the write calls issued since the current invocation started, after a history -/
def callsSince (w : Nat) : Thread → List AOp → List Op → List AOp
  | _, acc, [] => acc
  | t, acc, op :: rest => callsSince w (t.step w op).1 (callsStep t acc op) rest

/-- string writes in two halves (allocation, later copy) and the typed round-trip convenience are
    left out of this statement -/
def Op.wholeWrites : Op → Bool
  | .w _ (.alloc _) | .w _ (.copy _) | .serrt _ _ => false
  | _ => true

theorem step_writer (w : Nat) (t : Thread) (acc : List AOp) (op : Op) (hop : Op.wholeWrites op = true)
    (h : t.ctx.writer = (runKeep {} acc).1) :
    (t.step w op).1.ctx.writer = (runKeep {} (callsStep t acc op)).1 := by
  cases op
  case bad => exact h
  case width n => exact h
  case init bs => rfl
  case root =>
    simp only [Thread.step, callsStep, Thread.fmtVal_ctx]
    exact (Ctx.inputGet_keeps _).2.1.trans h
  case prop s q =>
    simp only [Thread.step, callsStep]
    split
    · exact h
    · simp only [Thread.fmtVal_ctx]; exact (Ctx.getObjProp_keeps _ _ _).2.1.trans h
  case iprop s id =>
    simp only [Thread.step, callsStep]
    split
    · exact h
    · split
      · exact h
      · rename_i r hr
        simp only [Thread.fmtVal_ctx]; exact (Ctx.getInternedObjProp_keeps _ _ _ _ hr).2.1.trans h
  case idx s i =>
    simp only [Thread.step, callsStep]
    split
    · exact h
    · simp only [Thread.fmtVal_ctx]; exact (Ctx.getAtIndex_keeps _ _ _).2.1.trans h
  case key s i =>
    simp only [Thread.step, callsStep]
    split
    · exact h
    · simp only [Thread.fmtVal_ctx]; exact (Ctx.getKeyAtIndex_keeps _ _ _).2.1.trans h
  case len s => simp only [Thread.step, callsStep]; split <;> exact h
  case str s =>
    simp only [Thread.step, callsStep]
    split
    · exact h
    · split
      · split <;> exact h
      · exact h
  case akind s => simp only [Thread.step, callsStep]; split <;> exact h
  case alen s => simp only [Thread.step, callsStep]; split <;> exact h
  case astr s =>
    simp only [Thread.step, callsStep]
    split
    · exact h
    · split
      · split <;> exact h
      · exact h
      · exact h
  case akey s i =>
    simp only [Thread.step, callsStep]
    split
    · exact h
    · split
      · split
        · split
          · exact (Ctx.getKeyAtIndex_keeps _ _ _).2.1.trans h
          · exact (Ctx.getKeyAtIndex_keeps _ _ _).2.1.trans h
        · exact (Ctx.getKeyAtIndex_keeps _ _ _).2.1.trans h
      · exact h
  case w api tok =>
    cases tok
    case bool n =>
      simp only [Thread.step, callsStep]
      split
      · exact h
      · rw [runKeep_snoc, ← h]; rfl
    case null => simp only [Thread.step, callsStep]; rw [runKeep_snoc, ← h]; rfl
    case i32 z => simp only [Thread.step, callsStep]; rw [runKeep_snoc, ← h]; rfl
    case f64 b => simp only [Thread.step, callsStep]; rw [runKeep_snoc, ← h]; rfl
    case str bs => simp only [Thread.step, callsStep]; rw [runKeep_snoc, ← h]; rfl
    case alloc n => simp [Op.wholeWrites] at hop
    case copy bs => simp [Op.wholeWrites] at hop
    case istr id =>
      simp only [Thread.step, callsStep]
      cases hg : t.ctx.interner.get? id with
      | none => exact h
      | some bs => simp only []; rw [runKeep_snoc, ← h]; rfl
    case obj n => simp only [Thread.step, callsStep]; rw [runKeep_snoc, ← h]; rfl
    case endobj => simp only [Thread.step, callsStep]; rw [runKeep_snoc, ← h]; rfl
    case arr n => simp only [Thread.step, callsStep]; rw [runKeep_snoc, ← h]; rfl
    case endarr => simp only [Thread.step, callsStep]; rw [runKeep_snoc, ← h]; rfl
  case fin => exact h
  case outq => exact h
  case outdoc => exact h
  case log len seed => exact h
  case logreq n => exact h
  case logcopy len seed =>
    simp only [Thread.step, callsStep]
    split
    · exact h
    · split <;> exact h
  case logsq => exact h
  case intern bs => exact h
  case internreq n => exact h
  case interncopy bs =>
    simp only [Thread.step, callsStep]
    split
    · exact h
    · split <;> exact h
  case cached bs =>
    simp only [Thread.step, callsStep]
    split <;> exact h
  case boxPtr k p l => exact h
  case boxBool b => exact h
  case boxNull => exact h
  case boxErr c => simp only [Thread.step, callsStep]; split <;> exact h
  case boxNum b => simp only [Thread.step, callsStep]; split <;> exact h
  case unbox v => exact h
  case maxlen => exact h
  case deint ty b =>
    simp only [Thread.step, callsStep]
    exact (deRoot_keeps _ _).2.1
  case de ty d =>
    simp only [Thread.step, callsStep]
    exact (deRoot_keeps _ _).2.1
  case serrt v d => simp [Op.wholeWrites] at hop

theorem run_writer (w : Nat) : ∀ (ops : List Op) (t : Thread) (acc : List AOp),
    (∀ op ∈ ops, Op.wholeWrites op = true) → t.ctx.writer = (runKeep {} acc).1 →
    (Thread.run w t ops).1.ctx.writer = (runKeep {} (callsSince w t acc ops)).1
  | [], _, _, _, h => h
  | op :: rest, t, acc, hs, h => by
    simp only [Thread.run, callsSince]
    exact run_writer w rest _ _ (fun o ho => hs o (List.mem_cons_of_mem _ ho))
      (step_writer w t acc op (hs op List.mem_cons_self) h)


/-- **C02 at the level of a whole thread, every history**: after any history of protocol operations
    on a thread (reads, logs, interning, new invocations, write calls accepted and rejected in any
    mixture, strings passed directly or by interned id and written whole), if finalisation reports the
    output complete, the output bytes are exactly the canonical encoding of one value tree, that tree is
    the one the accepted write calls since the invocation started describe (a string written by id
    counting as the bytes the id resolves to), and the independent decoder reads it back. -/
theorem C02_every_thread_history (w : Nat) (ops : List Op) (hs : ∀ op ∈ ops, Op.wholeWrites op = true)
    (hwf : ∀ a ∈ callsSince w {} [] ops, a.wf = true)
    (hfin : ((Thread.run w {} ops).1.ctx.writer.finalize).1 = WriteResult_Ok) :
    ∃ v : TVal, wfV v = true ∧ v.ser = (runKeep {} (callsSince w {} [] ops)).2 ∧
      (Thread.run w {} ops).1.ctx.writer.finalize = (WriteResult_Ok, v.enc.toArray) ∧
      decodeAll (Thread.run w {} ops).1.ctx.writer.out = some v.doc := by
  have hw := run_writer w ops {} [] hs rfl
  rw [hw] at hfin ⊢
  obtain ⟨v, h1, h2, h3, h4⟩ := C02_every_history (callsSince w {} [] ops) hwf hfin
  exact ⟨v, h2, h1, h3, h4⟩

/-- **C02 under every interleaving of any number of threads**: whatever the other threads do and
    wherever their steps fall (also between this thread's string-destination request and its copy —
    here: between any two of its write calls), a thread whose finalisation reports the output complete
    has produced exactly the canonical encoding of the value tree its *own* accepted write calls
    describe. Uses the schedule theorem behind C14 (`Lemmas/Sched`). -/
theorem C02_every_schedule (w : Nat) (sched : Sys.Sched) (t : Nat)
    (hs : ∀ op ∈ SfVerif.Props.C14.script t sched, Op.wholeWrites op = true)
    (hwf : ∀ a ∈ callsSince w {} [] (SfVerif.Props.C14.script t sched), a.wf = true)
    (hfin : (((Sys.runSched w {} sched).1.get t).ctx.writer.finalize).1 = WriteResult_Ok) :
    ∃ v : TVal, wfV v = true ∧ v.ser = (runKeep {} (callsSince w {} [] (SfVerif.Props.C14.script t sched))).2 ∧
      ((Sys.runSched w {} sched).1.get t).ctx.writer.finalize = (WriteResult_Ok, v.enc.toArray) ∧
      decodeAll ((Sys.runSched w {} sched).1.get t).ctx.writer.out = some v.doc := by
  have h := (SfVerif.Props.C14.noninterference_from w t sched {}).2
  have h0 : ({} : Sys).get t = {} := by simp [Sys.get]
  rw [h, h0] at hfin ⊢
  exact C02_every_thread_history w _ hs hwf hfin

/-- a schedule of two threads: thread 0 writes `[true, "a"]` with a rejected call in between, thread 1
    writes, logs and leaves its array unfinished, their steps interleaved -/
def demoSched : Sys.Sched :=
  [(0, .w false (.arr 2)), (1, .w false (.arr 1)), (0, .w false (.bool 1)), (1, .log 3 1),
   (0, .w false .endarr), (0, .w false (.str #[0x61])), (1, .w false .null), (0, .w false .endarr)]

/-- non-vacuity: the three hypotheses of `C02_every_schedule` hold for thread 0 of that schedule -/
example : (∀ op ∈ SfVerif.Props.C14.script 0 demoSched, Op.wholeWrites op = true) ∧
    (∀ a ∈ callsSince 32 {} [] (SfVerif.Props.C14.script 0 demoSched), a.wf = true) ∧
    ((((Sys.runSched 32 {} demoSched).1.get 0).ctx.writer.finalize).1 = WriteResult_Ok) := by
  refine ⟨by decide, by decide, by decide⟩

/-- the wasm-only `finalize` export (not compiled natively; regenerated from provider/src/lib.rs) hands
    the host six words: the first two are the output buffer's address and its length — what `out?` / finalisation show natively is what the host reads on wasm -/
theorem C02_wasm_finalize_words :
    SfVerif.Gen.wasmFinalizeSlots =
      [[111, 117, 116, 95, 112, 116, 114], [111, 117, 116, 95, 108, 101, 110],
       [108, 111, 103, 95, 112, 116, 114, 49], [108, 111, 103, 95, 108, 101, 110, 49],
       [108, 111, 103, 95, 112, 116, 114, 50], [108, 111, 103, 95, 108, 101, 110, 50]] := by decide +kernel

end SfVerif.Props.C02
