import SfVerif.Props.C03
/-! C02 — a completed output document is exactly the value that was written. -/
namespace SfVerif.Props.C02
open SfVerif SfVerif.Gen

/-- no byte from a rejected call appears in the output: a rejected call leaves the bytes as they were -/
theorem C02_rejected_bytes_absent (w : Writer) (op : WOp) (h : (w.step op).2.1 ≠ WriteResult_Ok) :
    (w.step op).1.out = w.out := by
  rw [SfVerif.Props.C03.C03_reject_noop w op h]

/-- a rejected string write hands out no destination, so the caller's copy has nowhere to go -/
theorem C02_rejected_string_has_no_destination (w : Writer) (len : Nat)
    (h : (w.step (.strAlloc len)).2.1 ≠ WriteResult_Ok) : (w.step (.strAlloc len)).2.2 = none := by
  simp only [Writer.step] at h ⊢
  split
  · rfl
  · rename_i hr
    exfalso
    simp only [hr, if_false] at h

/-- and the glue then copies nothing: the whole string write is a no-op on the bytes -/
theorem C02_rejected_string_write_noop (w : Writer) (bs : Bytes)
    (h : (w.writeStr bs).2 ≠ WriteResult_Ok) : (w.writeStr bs).1 = w := by
  unfold Writer.writeStr at h ⊢
  have hn := SfVerif.Props.C03.C03_reject_noop w (.strAlloc bs.size)
  have hd := C02_rejected_string_has_no_destination w bs.size
  cases hs : w.step (.strAlloc bs.size) with
  | mk w' rest =>
    obtain ⟨r, off⟩ := rest
    rw [hs] at h hn hd
    cases off with
    | none => simp at h ⊢; exact hn h
    | some o => simp at h; have := hd h; simp at this

/-- finalisation returns the bytes only when the writer is in the completed state -/
theorem C02_finalize_only_when_complete (w : Writer) :
    (w.finalize).1 = WriteResult_Ok ↔ w.st = .done := by
  unfold Writer.finalize
  by_cases h : w.st = .done <;> simp [h]

end SfVerif.Props.C02
