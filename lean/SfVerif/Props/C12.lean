import SfVerif.Model.Proto
import SfVerif.Lemmas.Blit
import SfVerif.Lemmas.Intern4
import SfVerif.Lemmas.Sched
/-! C12 — an interned string id always resolves to the bytes that were interned. -/
namespace SfVerif.Props.C12
open SfVerif SfVerif.Gen

/-- every recorded span lies inside the interner's storage -/
def WF (s : Interner) : Prop :=
  ∀ (i off len : Nat), s.spans[i]? = some (off, len) → off + len ≤ s.buf.size

theorem intern_buf (s : Interner) (bs : Bytes) : (s.intern bs).1.buf = s.buf ++ bs := by
  simp only [Interner.intern, Interner.preallocate, Interner.copyAt]
  exact blitAt_append_replicate s.buf bs

theorem intern_spans (s : Interner) (bs : Bytes) :
    (s.intern bs).1.spans = s.spans.push (s.buf.size, bs.size) := by
  simp [Interner.intern, Interner.preallocate, Interner.copyAt]

/-- every interning call returns a fresh id: the number of strings interned before it -/
theorem C12_fresh_id (s : Interner) (bs : Bytes) : (s.intern bs).2 = s.spans.size := by
  simp [Interner.intern, Interner.preallocate]

theorem wf_empty : WF {} := by
  intro i off len h; simp at h

theorem intern_wf (s : Interner) (bs : Bytes) (h : WF s) : WF (s.intern bs).1 := by
  intro i off len hi
  rw [intern_spans] at hi
  rw [intern_buf]
  simp only [Array.size_append]
  by_cases hlt : i < s.spans.size
  · rw [Array.getElem?_push_lt hlt] at hi
    have := h i off len (by rw [Array.getElem?_eq_getElem hlt]; exact hi)
    omega
  · by_cases heq : i = s.spans.size
    · subst heq
      simp at hi
      omega
    · have : (s.spans.push (s.buf.size, bs.size))[i]? = none := by
        apply Array.getElem?_eq_none; simp; omega
      rw [this] at hi; cases hi

/-- the id just returned resolves to exactly the bytes interned -/
theorem intern_get_new (s : Interner) (bs : Bytes) :
    (s.intern bs).1.get? s.spans.size = some bs := by
  unfold Interner.get?
  rw [intern_spans, intern_buf]
  simp only [Array.getElem?_push_size]
  congr 1
  apply Array.ext'
  simp

/-- interning more strings — however many, however large, forcing the storage to grow — never
    changes what an earlier id resolves to -/
theorem intern_get_old (s : Interner) (bs : Bytes) (id : Nat) (h : WF s) (hid : id < s.spans.size) :
    (s.intern bs).1.get? id = s.get? id := by
  unfold Interner.get?
  rw [intern_spans, intern_buf, Array.getElem?_push_lt hid]
  have hs : s.spans[id]? = some s.spans[id] := by simp [hid]
  rw [hs]
  have hb := h id s.spans[id].1 s.spans[id].2 (by rw [hs])
  simp only []
  congr 1
  rw [Array.extract_append]
  have : s.spans[id].1 + s.spans[id].2 - s.buf.size = 0 := by omega
  rw [this]
  simp

/-- intern a list of strings in order -/
def internAll (s : Interner) : List Bytes → Interner
  | [] => s
  | b :: rest => internAll (s.intern b).1 rest

theorem internAll_wf (s : Interner) (strs : List Bytes) (h : WF s) : WF (internAll s strs) := by
  induction strs generalizing s with
  | nil => exact h
  | cons b rest ih => exact ih _ (intern_wf s b h)

theorem internAll_size (s : Interner) (strs : List Bytes) :
    (internAll s strs).spans.size = s.spans.size + strs.length := by
  induction strs generalizing s with
  | nil => simp [internAll]
  | cons b rest ih =>
    simp only [internAll, ih, intern_spans, Array.size_push, List.length_cons]; omega

theorem internAll_get_old (s : Interner) (strs : List Bytes) (id : Nat) (h : WF s) (hid : id < s.spans.size) :
    (internAll s strs).get? id = s.get? id := by
  induction strs generalizing s with
  | nil => rfl
  | cons b rest ih =>
    simp only [internAll]
    rw [ih _ (intern_wf s b h) (by rw [intern_spans]; simp; omega), intern_get_old s b id h hid]

/-- **C12 (refinement to an append-only list of byte strings)**: after interning any sequence of
    strings, the k-th id resolves to the k-th string, and the ids are 0, 1, 2, … -/
theorem C12_refines (strs : List Bytes) :
    (internAll {} strs).spans.size = strs.length ∧
    ∀ k, (internAll {} strs).get? k = strs[k]? := by
  refine ⟨by simpa using internAll_size {} strs, ?_⟩
  -- generalise over a well-formed starting interner
  suffices H : ∀ (s : Interner), WF s → ∀ k, (internAll s strs).get? (s.spans.size + k) = strs[k]? by
    intro k; simpa using H {} wf_empty k
  induction strs with
  | nil =>
    intro s _ k
    simp only [internAll, List.getElem?_nil]
    unfold Interner.get?
    have : s.spans[s.spans.size + k]? = none := by apply Array.getElem?_eq_none; omega
    rw [this]
  | cons b rest ih =>
    intro s hs k
    simp only [internAll]
    cases k with
    | zero =>
      simp only [Nat.add_zero, List.getElem?_cons_zero]
      rw [internAll_get_old _ rest _ (intern_wf s b hs) (by rw [intern_spans]; simp)]
      exact intern_get_new s b
    | succ k =>
      have := ih (s.intern b).1 (intern_wf s b hs) k
      rw [intern_spans, Array.size_push] at this
      rw [List.getElem?_cons_succ, ← this]
      congr 1; omega

/-- a new invocation on the same thread keeps the interner: ids stay valid -/
theorem C12_survives_new_invocation (c : Ctx) (b : Bytes) : (c.reinit b).interner = c.interner := rfl

/-- writing a string by id behaves exactly like writing the bytes that were interned -/
theorem C12_write_by_id (w : Nat) (t : Thread) (id : Nat) (bs : Bytes)
    (h : t.ctx.interner.get? id = some bs) :
    t.step w (.w false (.istr id)) = t.step w (.w false (.str bs)) := by
  simp [Thread.step, h]

/-- looking a property up by id behaves exactly like looking it up by the interned bytes -/
theorem C12_lookup_by_id (c : Ctx) (s : Scope) (id : Nat) (bs : Bytes)
    (h : c.interner.get? id = some bs) :
    c.getInternedObjProp s id = some (c.getObjProp s bs) := by
  unfold Ctx.getInternedObjProp
  cases s with
  | node hd =>
    simp only []
    split
    · simp [h]
    · rename_i hne
      -- not an object: both sides are the NotAnObject / ReadError answer, independent of the name
      simp only [Ctx.getObjProp, Ctx.dispatch]
      split
      · rfl
      · rename_i n hn
        cases n with
        | scalar v => cases v <;> simp [Ctx.kindOf]
        | arr l e p => simp [Ctx.kindOf]
        | obj l ps e => exact absurd hn (hne l ps e)
  | lit d =>
    cases d with
    | ok r => cases r <;> simp [h, Ctx.getObjProp, Ctx.dispatch]
    | decodeError => simp [Ctx.getObjProp, Ctx.dispatch]
    | panic => simp [Ctx.getObjProp, Ctx.dispatch]

/-- non-vacuity: two interned strings, the second forcing growth; both ids resolve -/
example : (internAll {} [#[1, 2, 3], #[]]).spans.size = 2 := by
  have := (C12_refines [#[1, 2, 3], #[]]).1; simpa using this


/-- the interning part of a thread after a history is the interning sub-machine run on that history
    (every protocol operation, the typed (de)serialisation ones included) -/
theorem run_istate (w : Nat) (ops : List Op) (t : Thread) :
    (Thread.run w t ops).1.istate = t.istate.run ops := by
  induction ops generalizing t with
  | nil => rfl
  | cons op rest ih =>
    simp only [Thread.run, IState.run]
    rw [ih, Thread.step_istate w t op]

/-- **C12 at the level of a whole thread, every history**: in any thread state reached from a fresh
    thread by any sequence of protocol operations — reads, writes, logs, new invocations, further
    interning of any number and size of strings, pending and completed copies — an id that resolves to
    `bs` (and is not the reservation still waiting for its copy) resolves to `bs` after every further
    sequence of operations. -/
theorem C12_id_resolves_forever (w : Nat) (pre post : List Op)
    (id : Nat) (bs : Bytes)
    (h : Resolves (Thread.run w {} pre).1.istate id bs) :
    (Thread.run w (Thread.run w {} pre).1 post).1.ctx.interner.get? id = some bs := by
  have hinv : IInv (Thread.run w {} pre).1.istate := by
    rw [run_istate w pre]; exact iinv_run iinv_init pre
  have := resolves_run hinv h post
  rw [← run_istate w post] at this
  exact this.1

/-- every way of interning yields such an id: a whole `intern` call returns the number of strings
    interned so far (a fresh id) and that id resolves to the bytes from then on -/
theorem C12_intern_creates (w : Nat) (pre : List Op) (bs : Bytes) :
    let t := (Thread.run w {} pre).1
    (t.step w (.intern bs)).2 = s!"id {t.ctx.interner.spans.size}" ∧
    Resolves (t.step w (.intern bs)).1.istate t.ctx.interner.spans.size bs := by
  intro t
  have hinv : IInv t.istate := by
    show IInv (Thread.run w {} pre).1.istate
    rw [run_istate w pre]; exact iinv_run iinv_init pre
  refine ⟨rfl, ?_⟩
  rw [Thread.step_istate w t (.intern bs)]
  exact ⟨intern_new _ _ hinv.consec, notPending_new t.istate hinv bs⟩

/-- the split form used by the glue (reserve, then copy exactly the reserved length) yields one too -/
theorem C12_reserve_then_copy_creates (w : Nat) (pre : List Op) (bs : Bytes) :
    let t := (Thread.run w {} pre).1
    let t2 := ((t.step w (.internreq bs.size)).1.step w (.interncopy bs)).1
    Resolves t2.istate t.ctx.interner.spans.size bs := by
  intro t t2
  have hinv : IInv t.istate := by
    show IInv (Thread.run w {} pre).1.istate
    rw [run_istate w pre]; exact iinv_run iinv_init pre
  show Resolves ((t.step w (.internreq bs.size)).1.step w (.interncopy bs)).1.istate _ bs
  rw [Thread.step_istate w _ (.interncopy bs), Thread.step_istate w t (.internreq bs.size)]
  have hc := preallocate_consec t.istate.s bs.size hinv.consec
  simp only [IState.step, Nat.lt_irrefl, gt_iff_lt, if_false]
  refine ⟨?_, fun _ _ h => (by cases h)⟩
  exact get?_copyAt_self _ hc _ _ _ (get?_preallocate_new _ _)

/-- **cached id handles**: once a `load` of the cached handle for `bs` has answered an id on this
    thread, every later load on this thread — after any operations in between — answers the same id,
    without interning again, and that id resolves to `bs` -/
theorem C12_cached_same_id (w : Nat) (pre mid : List Op) (bs : Bytes) :
    let t1 := ((Thread.run w {} pre).1.step w (.cached bs))
    let t2 := (Thread.run w t1.1 mid).1
    (t2.step w (.cached bs)).2 = t1.2 ∧ (t2.step w (.cached bs)).1.istate = t2.istate ∧
    ∃ id, t1.2 = s!"id {id}" ∧ t2.ctx.interner.get? id = some bs := by
  intro t1 t2
  let t0 := (Thread.run w {} pre).1
  have hinv0 : IInv t0.istate := by
    show IInv (Thread.run w {} pre).1.istate
    rw [run_istate w pre]; exact iinv_run iinv_init pre
  have hinv1 : IInv t1.1.istate := by
    show IInv (t0.step w (.cached bs)).1.istate
    rw [Thread.step_istate w t0 (.cached bs)]; exact iinv_step hinv0 _
  -- after the first load the cache has an entry for `bs`, and the answer is its id
  have hentry : ∃ id, t1.1.cache.find? (fun q => q.1 == bs) = some (bs, id) ∧ t1.2 = s!"id {id}" := by
    show ∃ id, (t0.step w (.cached bs)).1.cache.find? (fun q => q.1 == bs) = some (bs, id) ∧ (t0.step w (.cached bs)).2 = s!"id {id}"
    simp only [Thread.step]
    cases hf : t0.cache.find? (fun p => p.1 == bs) with
    | some p =>
      obtain ⟨b', id⟩ := p
      have hb : b' = bs := by
        have := List.find?_some hf; simpa using this
      subst hb
      exact ⟨id, hf, rfl⟩
    | none =>
      refine ⟨(t0.ctx.interner.intern bs).2, ?_, rfl⟩
      simp
  obtain ⟨id, hfind, hans⟩ := hentry
  have hfind2 : t2.cache.find? (fun q => q.1 == bs) = some (bs, id) := by
    have := cache_find_run t1.1.istate bs (bs, id) hfind mid
    rw [← run_istate w mid] at this
    exact this
  have hres1 : Resolves t1.1.istate id bs := hinv1.cache (bs, id) (List.mem_of_find?_eq_some hfind)
  have hres2 := resolves_run hinv1 hres1 mid
  rw [← run_istate w mid] at hres2
  refine ⟨?_, ?_, id, hans, hres2.1⟩
  · simp only [Thread.step, hfind2, hans]
  · rw [Thread.step_istate w t2 (.cached bs)]
    simp only [IState.step]
    have : t2.istate.cache.find? (fun p => p.1 == bs) = some (bs, id) := hfind2
    rw [this]

/-- non-vacuity: a history with a pending reservation, a completed copy and a cached handle -/
example : Resolves (Thread.run 64 {} [.internreq 2, .intern #[7], .interncopy #[1, 2], .cached #[9]]).1.istate 1 #[7] := by
  have := C12_intern_creates 64 [.internreq 2] #[7]
  simp only at this
  have h1 := this.2
  have hinv : IInv ((Thread.run 64 {} [.internreq 2]).1.step 64 (.intern #[7])).1.istate := by
    rw [Thread.step_istate _ _ _, run_istate 64 _]
    exact iinv_step (iinv_run iinv_init _) _
  have h2 := resolves_run hinv h1 [.interncopy #[1, 2], .cached #[9]]
  rw [← run_istate 64 _] at h2
  exact h2

/-- **C12 under every interleaving of any number of threads**: an id that resolves to `bs` on
    thread `t` at some point of a schedule resolves to `bs` on that thread after every
    continuation of the schedule, whatever all the threads (this one included) do next and
    wherever their steps fall. (Schedule theorem: `Lemmas/Sched`.) -/
theorem C12_every_schedule (w : Nat) (s1 s2 : Sys.Sched) (t id : Nat) (bs : Bytes)
    (h : Resolves ((Sys.runSched w {} s1).1.get t).istate id bs) :
    ((Sys.runSched w (Sys.runSched w {} s1).1 s2).1.get t).ctx.interner.get? id = some bs := by
  have h1 := (SfVerif.Props.C14.noninterference_from w t s1 {}).2
  have h0 : ({} : Sys).get t = {} := by simp [Sys.get]
  rw [h0] at h1
  have h2 := (SfVerif.Props.C14.noninterference_from w t s2 (Sys.runSched w {} s1).1).2
  rw [h2, h1]
  rw [h1] at h
  exact C12_id_resolves_forever w _ _ id bs h

end SfVerif.Props.C12
