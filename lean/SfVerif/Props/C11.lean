import SfVerif.Model.Proto
import SfVerif.Props.C06
import SfVerif.Lemmas.DocLink7
/-! C11 — true lengths are always recoverable below, at and above the inline limit. -/
namespace SfVerif.Props.C11
open SfVerif SfVerif.Gen

/-- the inline length field of a handle is `min n (2^14 - 1)` on both widths: below the limit the
    length travels in the handle, at and above it the field reads exactly 2^14 - 1 -/
theorem C11_inline_field (ptr n : Nat) :
    (ptr < 2 ^ 32 →
      NanBox.tryDecode 32 (NanBox.string 32 ptr n) = .ok (.string ptr (min n (2 ^ 14 - 1))) ∧
      NanBox.tryDecode 32 (NanBox.array 32 ptr n) = .ok (.array ptr (min n (2 ^ 14 - 1))) ∧
      NanBox.tryDecode 32 (NanBox.obj 32 ptr n) = .ok (.object ptr (min n (2 ^ 14 - 1)))) ∧
    (ptr < 2 ^ 64 →
      NanBox.tryDecode 64 (NanBox.string 64 ptr n) = .ok (.string ptr (min n (2 ^ 14 - 1))) ∧
      NanBox.tryDecode 64 (NanBox.array 64 ptr n) = .ok (.array ptr (min n (2 ^ 14 - 1))) ∧
      NanBox.tryDecode 64 (NanBox.obj 64 ptr n) = .ok (.object ptr (min n (2 ^ 14 - 1)))) := by
  constructor
  · intro hp; have := SfVerif.Props.C06.C06_roundtrip32 ptr n hp; exact ⟨this.1, this.2.2, this.2.1⟩
  · intro hp; have := SfVerif.Props.C06.C06_roundtrip64 ptr n hp; exact ⟨this.1, this.2.2, this.2.1⟩

/-- **the length the API reports is the true length, for every size**: the accessor reads the
    inline field and, exactly when it is saturated, asks the provider, which answers with the
    node's own length -/
theorem C11_api_len_is_true_length (w : Nat) (t : Thread) (h : Handle) (node : Node)
    (hn : t.ctx.nodeAt? h = some node) :
    Thread.apiLen w t (.node h) (min node.valueLength (MAX_VALUE_LENGTH w)) = some node.valueLength := by
  unfold Thread.apiLen
  by_cases hs : min node.valueLength (MAX_VALUE_LENGTH w) = MAX_VALUE_LENGTH w
  · rw [if_pos hs]
    simp [Ctx.getValLen, hn]
  · rw [if_neg hs]
    congr 1
    omega

/-- the length query itself returns the true length of strings, arrays and objects … -/
theorem C11_val_len (c : Ctx) (h : Handle) (node : Node) (hn : c.nodeAt? h = some node) :
    c.getValLen (.node h) = some node.valueLength := by
  simp [Ctx.getValLen, hn]

/-- … and -1 (no length) for null, booleans, numbers, errors and undecodable values -/
theorem C11_no_length (c : Ctx) (d : NanBox.Decoded) : c.getValLen (.lit d) = none := rfl

/-- the number of elements / pairs a caller can index is the true length: index `i` is refused as
    out of bounds exactly when `i ≥ len` -/
theorem arrGetLoop_not_oob (b : Bytes) (f len : Nat) : ∀ (k : Nat) (elems : NodeList) (e : Nat),
    (arrGetLoop b f len elems e k).2 ≠ .err ErrorCode_IndexOutOfBounds := by
  intro k
  induction k with
  | zero => intro elems e; simp [arrGetLoop]
  | succ k ih =>
    intro elems e
    unfold arrGetLoop
    cases elems with
    | nil =>
      simp only []
      split
      · simp
      · exact ih _ _
    | snoc init last =>
      simp only []
      split
      · simp
      · split
        · simp
        · exact ih _ _

theorem objGetLoop_not_oob (b : Bytes) (f len : Nat) : ∀ (k : Nat) (pairs : PairList) (e : Nat),
    (objGetLoop b f len pairs e k).2 ≠ .err ErrorCode_IndexOutOfBounds := by
  intro k
  induction k with
  | zero => intro pairs e; simp [objGetLoop]
  | succ k ih =>
    intro pairs e
    unfold objGetLoop
    cases pairs with
    | nil =>
      simp only []
      split
      · split
        · simp
        · exact ih _ _
      · simp
    | snoc init ko kl last =>
      simp only []
      split
      · simp
      · split
        · split
          · simp
          · exact ih _ _
        · simp

theorem C11_index_refused_iff (b : Bytes) (f len e i : Nat) (elems : NodeList) (pairs : PairList) :
    ((arrGet b f len elems e i).2 = .err ErrorCode_IndexOutOfBounds ↔ len ≤ i) ∧
    ((objGet b f len pairs e i).2 = .err ErrorCode_IndexOutOfBounds ↔ len ≤ i) := by
  constructor
  · unfold arrGet
    by_cases h : i ≥ len
    · simp [h]
    · simp only [h, if_false]
      have hlt : ¬ len ≤ i := by omega
      split
      · simp
      · constructor
        · intro hh; exact absurd hh (arrGetLoop_not_oob b f len _ _ _)
        · intro hh; exact hh.elim
  · unfold objGet
    by_cases h : i ≥ len
    · simp [h]
    · simp only [h, if_false]
      have hlt : ¬ len ≤ i := by omega
      split
      · simp
      · constructor
        · intro hh; exact absurd hh (objGetLoop_not_oob b f len _ _ _)
        · intro hh; exact hh.elim

/-- **the true length through every access path**: in every reachable context over an input that
    decodes to `d`, for every valid handle (root, nested, reached by name or by index, a key) the
    length query returns the length of the decoded sub-document — string bytes, array elements,
    object pairs, of any size — and exactly the indices below that length can be read: an array
    index / object value index / key index `i` is answered with `IndexOutOfBounds` iff
    `i ≥` the true length -/
theorem C11_true_length_every_path (c : Ctx) (hc : CInv c) (d : Doc) (hd : Decodes c.input d)
    (h : Handle) (m : Node) (hm : c.nodeAt? h = some m) :
    ∃ dc, d.getPath? h.path = some dc ∧ c.getValLen (.node h) = some (DocSpec.getValLen dc) ∧
      (∀ xs, dc = .arr xs → ∀ i,
        ((c.getAtIndex (.node h) i).2 = .err ErrorCode_IndexOutOfBounds ↔ xs.length ≤ i)) ∧
      (∀ ps, dc = .map ps → ∀ i,
        ((c.getAtIndex (.node h) i).2 = .err ErrorCode_IndexOutOfBounds ↔ ps.length ≤ i) ∧
        ((c.getKeyAtIndex (.node h) i).2 = .err ErrorCode_IndexOutOfBounds ↔ ps.length ≤ i)) := by
  obtain ⟨dc, hdc⟩ := handle_in_doc hc hd hm
  have box_ne_oob : ∀ (x : Doc) (hh : Handle), x.box hh ≠ .err ErrorCode_IndexOutOfBounds := by
    intro x hh
    cases x <;> simp [Doc.box] <;> (split <;> simp)
  refine ⟨dc, hdc, by rw [(getValLen_node_ok hc hm).1]; exact getValLen_doc hd hdc, ?_, ?_⟩
  · intro xs hxs i
    subst hxs
    rw [(getAtIndex_node_ok hc hm i).1, getAtIndex_doc hd hdc i]
    simp only [DocSpec.getAtIndex]
    cases hx : xs[i]? with
    | none =>
      have : xs.length ≤ i := by
        cases hlt : decide (i < xs.length) with
        | true => have h' : i < xs.length := by simpa using hlt
                  rw [List.getElem?_eq_getElem h'] at hx; cases hx
        | false => simpa using hlt
      simp [this]
    | some x =>
      have : i < xs.length := by
        cases hlt : decide (i < xs.length) with
        | true => simpa using hlt
        | false => have h' : xs.length ≤ i := by simpa using hlt
                   rw [List.getElem?_eq_none h'] at hx; cases hx
      simp only []
      constructor
      · intro hh; exact absurd hh (box_ne_oob _ _)
      · intro hh; omega
  · intro ps hps i
    subst hps
    rw [(getAtIndex_node_ok hc hm i).1, getAtIndex_doc hd hdc i,
      (getKeyAtIndex_node_ok hc hm i).1, getKeyAtIndex_doc hd hdc i]
    simp only [DocSpec.getAtIndex, DocSpec.getKeyAtIndex]
    cases hx : ps[i]? with
    | none =>
      have : ps.length ≤ i := by
        cases hlt : decide (i < ps.length) with
        | true => have h' : i < ps.length := by simpa using hlt
                  rw [List.getElem?_eq_getElem h'] at hx; cases hx
        | false => simpa using hlt
      simp [this]
    | some x =>
      obtain ⟨kd, vd⟩ := x
      have : i < ps.length := by
        cases hlt : decide (i < ps.length) with
        | true => simpa using hlt
        | false => have h' : ps.length ≤ i := by simpa using hlt
                   rw [List.getElem?_eq_none h'] at hx; cases hx
      simp only []
      refine ⟨⟨fun hh => absurd hh (box_ne_oob _ _), fun hh => by omega⟩,
              ⟨fun hh => absurd hh (box_ne_oob _ _), fun hh => by omega⟩⟩

/-- non-vacuity: the saturated field and the fallback on a concrete large array -/
example : Thread.apiLen 32
    { ctx := { roots := #[.arr 70000 .nil 5] } } (.node ⟨0, []⟩) (min 70000 (MAX_VALUE_LENGTH 32)) = some 70000 := by
  have := C11_api_len_is_true_length 32 { ctx := { roots := #[.arr 70000 .nil 5] } } ⟨0, []⟩ (.arr 70000 .nil 5) rfl
  simpa [Node.valueLength] using this

end SfVerif.Props.C11
