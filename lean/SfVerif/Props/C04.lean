import SfVerif.Lemmas.GlueShape
import SfVerif.Gen.Glue
import SfVerif.Gen.Abi
/-! C04 — trampolined imports behave exactly as the public ABI specifies.
    The theorems are about the instruction lists in Gen/Glue.lean, i.e. the code the current
    trampoline source emits (regenerated on every run), for all arguments, both memories, every
    calling context and every provider response. -/
namespace SfVerif.Props.C04
open SfVerif SfVerif.Wasm SfVerif.Gen

/-- the shape check for one rewritten module: memory 0 is the imported provider memory, memory 1
    the guest's own; every API export is either the provider's function under the underscored
    name with the same signature, or one of the five glue functions -/
def shapesOK (M : Module) : Bool :=
  M.memsImported == [true, false] &&
  M.apiExports.all (fun e =>
    match glueApi[e.1]? with
    | none => false
    | some (name, ps, rs) =>
      if name == nmReadStr then (checkReadStr M.funcs e.2 glueProviderModule nmAddr).isSome
      else if name == nmGetProp then (checkGetProp M.funcs e.2 glueProviderModule nmAlloc (95 :: name)).isSome
      else if name == nmOutStr || name == nmIntern then (checkStrIn M.funcs e.2 glueProviderModule (95 :: name)).isSome
      else if name == nmLog then (checkLog M.funcs e.2 glueProviderModule (95 :: name)).isSome
      else isImport M.funcs e.2 glueProviderModule (95 :: name) ps rs)

/-- regenerated obligation: every module the real trampoline produced for the fixed family has
    the expected shapes -/
theorem C04_emitted_shapes : ∀ M ∈ glueModules, shapesOK M = true := by decide +kernel

theorem shape_of_export {M : Module} (hM : M ∈ glueModules) {k f : Nat} (he : (k, f) ∈ M.apiExports)
    {name ps rs : List Nat} (hk : glueApi[k]? = some (name, ps, rs)) :
    (name = nmReadStr → (checkReadStr M.funcs f glueProviderModule nmAddr).isSome = true) ∧
    (name = nmGetProp → (checkGetProp M.funcs f glueProviderModule nmAlloc (95 :: name)).isSome = true) ∧
    ((name = nmOutStr ∨ name = nmIntern) → (checkStrIn M.funcs f glueProviderModule (95 :: name)).isSome = true) ∧
    (name = nmLog → (checkLog M.funcs f glueProviderModule (95 :: name)).isSome = true) ∧
    ((name ≠ nmReadStr ∧ name ≠ nmGetProp ∧ name ≠ nmOutStr ∧ name ≠ nmIntern ∧ name ≠ nmLog) →
      isImport M.funcs f glueProviderModule (95 :: name) ps rs = true) := by
  have h := C04_emitted_shapes M hM
  unfold shapesOK at h
  simp only [Bool.and_eq_true, List.all_eq_true] at h
  have h2 := h.2 (k, f) he
  simp only [hk] at h2
  refine ⟨?_, ?_, ?_, ?_, ?_⟩
  · intro hn; subst hn; simpa using h2
  · intro hn; subst hn
    have : (nmGetProp == nmReadStr) = false := by decide
    simpa [this] using h2
  · intro hn
    rcases hn with hn | hn <;> subst hn
    · have a : (nmOutStr == nmReadStr) = false := by decide
      have b : (nmOutStr == nmGetProp) = false := by decide
      simpa [a, b] using h2
    · have a : (nmIntern == nmReadStr) = false := by decide
      have b : (nmIntern == nmGetProp) = false := by decide
      have c : (nmIntern == nmOutStr) = false := by decide
      simpa [a, b, c] using h2
  · intro hn; subst hn
    have a : (nmLog == nmReadStr) = false := by decide
    have b : (nmLog == nmGetProp) = false := by decide
    have c : (nmLog == nmOutStr) = false := by decide
    have d : (nmLog == nmIntern) = false := by decide
    simpa [a, b, c, d] using h2
  · intro ⟨h1, h2', h3, h4, h5⟩
    simpa [h1, h2', h3, h4, h5] using h2

/-- **string value out** (`input_read_utf8_str(src, out, len)`): exactly `len` bytes from the
    provider address of the string to guest `out`; nothing else in the guest memory changes and
    the glue itself does not touch the provider memory -/
theorem C04_read_utf8_str {M : Module} (hM : M ∈ glueModules) {k f : Nat} (he : (k, f) ∈ M.apiExports)
    {ps rs : List Nat} (hk : glueApi[k]? = some (nmReadStr, ps, rs))
    (host : Host) (fuel : Nat) (prov guest prov' : Mem) (src out len addr : Nat) (rest locals : List V)
    (calls : List (List Nat × List V))
    (hhost : host nmAddr [.i32 src] prov = some ([.i32 addr], prov'))
    (hsrc : addr + len ≤ prov'.size) (hdst : out + len ≤ guest.size) :
    exec host M.funcs (fuel + 2) (.call f)
        { prov := prov, guest := guest, stack := .i32 len :: .i32 out :: .i32 src :: rest, locals := locals, calls := calls } =
      .ok { prov := prov',
            guest := { guest with byte := fun x =>
                        if out ≤ x ∧ x < out + len then prov'.byte (addr + (x - out)) else guest.byte x },
            stack := rest, locals := locals, calls := (nmAddr, [.i32 src]) :: calls } := by
  have hs := (shape_of_export hM he hk).1 rfl
  obtain ⟨⟨a, c⟩, hc⟩ := Option.isSome_iff_exists.mp hs
  obtain ⟨h1, h2, h3⟩ := checkReadStr_sound hc
  exact readStr_exec host M.funcs f a c _ _ fuel h1 h2 h3 prov guest prov' src out len addr rest locals calls hhost hsrc hdst

/-- **property name in** (`input_get_obj_prop(scope, ptr, len)`) -/
theorem C04_get_obj_prop {M : Module} (hM : M ∈ glueModules) {k f : Nat} (he : (k, f) ∈ M.apiExports)
    {ps rs : List Nat} (hk : glueApi[k]? = some (nmGetProp, ps, rs))
    (host : Host) (fuel : Nat) (prov guest prov1 prov3 : Mem) (scope ptr len dst v : Nat) (rest locals : List V)
    (calls : List (List Nat × List V))
    (halloc : host nmAlloc [.i32 len] prov = some ([.i32 dst], prov1))
    (hsrc : ptr + len ≤ guest.size) (hdst : dst + len ≤ prov1.size)
    (hprop : host (95 :: nmGetProp) [.i64 scope, .i32 dst, .i32 len] (provAfterCopy prov1 guest dst ptr len)
        = some ([.i64 v], prov3)) :
    exec host M.funcs (fuel + 3) (.call f)
        { prov := prov, guest := guest, stack := .i32 len :: .i32 ptr :: .i64 scope :: rest, locals := locals, calls := calls } =
      .ok { prov := prov3, guest := guest, stack := .i64 v :: rest, locals := locals,
            calls := (95 :: nmGetProp, [.i64 scope, .i32 dst, .i32 len]) :: (nmAlloc, [.i32 len]) :: calls } := by
  have hs := (shape_of_export hM he hk).2.1 rfl
  obtain ⟨⟨al, ai, cp, pf⟩, hc⟩ := Option.isSome_iff_exists.mp hs
  obtain ⟨h1, h2, h3, h4, h5⟩ := checkGetProp_sound hc
  exact getProp_exec host M.funcs f al ai cp pf _ _ _ fuel h1 h2 h3 h4 h5 prov guest prov1 prov3 scope ptr len dst v
    rest locals calls halloc hsrc hdst hprop

/-- **output string in / interned string in** (`output_new_utf8_str(ptr, len)`, `intern_utf8_str(ptr, len)`):
    the provider's 64-bit answer carries (status or id, destination); exactly `len` bytes go from
    guest `ptr` to the destination and the status / id is returned. This is what the emitted code
    does for *every* answer — including a rejected write, see `C04_rejected_write_still_copies`. -/
theorem C04_string_in {M : Module} (hM : M ∈ glueModules) {k f : Nat} (he : (k, f) ∈ M.apiExports)
    {name ps rs : List Nat} (hk : glueApi[k]? = some (name, ps, rs)) (hname : name = nmOutStr ∨ name = nmIntern)
    (host : Host) (fuel : Nat) (prov guest prov' : Mem) (ptr len v : Nat) (rest locals : List V)
    (calls : List (List Nat × List V))
    (hhost : host (95 :: name) [.i32 len] prov = some ([.i64 v], prov'))
    (hsrc : ptr + len ≤ guest.size) (hdst : v % 2 ^ 32 + len ≤ prov'.size) :
    exec host M.funcs (fuel + 2) (.call f)
        { prov := prov, guest := guest, stack := .i32 len :: .i32 ptr :: rest, locals := locals, calls := calls } =
      .ok { prov := provAfterCopy prov' guest (v % 2 ^ 32) ptr len,
            guest := guest, stack := .i32 (v / 2 ^ 32 % 2 ^ 32) :: rest, locals := locals,
            calls := (95 :: name, [.i32 len]) :: calls } := by
  have hs := (shape_of_export hM he hk).2.2.1 hname
  obtain ⟨⟨pf, cp⟩, hc⟩ := Option.isSome_iff_exists.mp hs
  obtain ⟨h1, h2, h3⟩ := checkStrIn_sound hc
  exact strIn_exec host M.funcs f pf cp _ _ fuel h1 h2 h3 prov guest prov' ptr len v rest locals calls hhost hsrc hdst

/-- **C04 for an accepted string write (partial)**: when the provider accepts (status 0) the
    effect is exactly the ABI's — the bytes arrive at the destination, status 0 is returned,
    nothing else is touched. The full statement ("a rejected write writes nothing") is false of
    the emitted code: `C04_rejected_write_still_copies` (known finding F8). -/
theorem C04_output_string_accepted_partial {M : Module} (hM : M ∈ glueModules) {k f : Nat} (he : (k, f) ∈ M.apiExports)
    {ps rs : List Nat} (hk : glueApi[k]? = some (nmOutStr, ps, rs))
    (host : Host) (fuel : Nat) (prov guest prov' : Mem) (ptr len dst : Nat) (rest locals : List V)
    (calls : List (List Nat × List V)) (hd : dst < 2 ^ 32)
    (hhost : host (95 :: nmOutStr) [.i32 len] prov = some ([.i64 dst], prov'))
    (hsrc : ptr + len ≤ guest.size) (hdst : dst + len ≤ prov'.size) :
    exec host M.funcs (fuel + 2) (.call f)
        { prov := prov, guest := guest, stack := .i32 len :: .i32 ptr :: rest, locals := locals, calls := calls } =
      .ok { prov := provAfterCopy prov' guest dst ptr len,
            guest := guest, stack := .i32 0 :: rest, locals := locals,
            calls := (95 :: nmOutStr, [.i32 len]) :: calls } := by
  have hm : dst % 2 ^ 32 = dst := Nat.mod_eq_of_lt hd
  have := C04_string_in hM he hk (Or.inl rfl) host fuel prov guest prov' ptr len dst rest locals calls hhost hsrc
    (by rw [hm]; exact hdst)
  rw [this, hm]
  have : dst / 2 ^ 32 % 2 ^ 32 = 0 := by
    rw [Nat.div_eq_of_lt hd]
  rw [this]

/-- the excluded case, proved: for a rejected write (status 4, destination 0) of a non-empty
    string the emitted code overwrites provider memory from address 0 (F8) -/
theorem C04_rejected_write_still_copies {M : Module} (hM : M ∈ glueModules) {k f : Nat} (he : (k, f) ∈ M.apiExports)
    {ps rs : List Nat} (hk : glueApi[k]? = some (nmOutStr, ps, rs))
    (host : Host) (fuel : Nat) (prov guest prov' : Mem) (ptr len : Nat) (rest locals : List V)
    (calls : List (List Nat × List V))
    (hhost : host (95 :: nmOutStr) [.i32 len] prov = some ([.i64 (4 * 2 ^ 32)], prov'))
    (hsrc : ptr + len ≤ guest.size) (hdst : len ≤ prov'.size) :
    exec host M.funcs (fuel + 2) (.call f)
        { prov := prov, guest := guest, stack := .i32 len :: .i32 ptr :: rest, locals := locals, calls := calls } =
      .ok { prov := provAfterCopy prov' guest 0 ptr len,
            guest := guest, stack := .i32 4 :: rest, locals := locals,
            calls := (95 :: nmOutStr, [.i32 len]) :: calls } := by
  have := C04_string_in hM he hk (Or.inl rfl) host fuel prov guest prov' ptr len (4 * 2 ^ 32) rest locals calls hhost hsrc
    (by simpa using hdst)
  rw [this]

/-- **log message in**, one segment (the plan says `len1 = len`) -/
theorem C04_log_one_segment {M : Module} (hM : M ∈ glueModules) {k f : Nat} (he : (k, f) ∈ M.apiExports)
    {ps rs : List Nat} (hk : glueApi[k]? = some (nmLog, ps, rs))
    (host : Host) (fuel : Nat) (prov guest prov' : Mem) (ptr len addr so d1 : Nat) (rest locals : List V)
    (calls : List (List Nat × List V))
    (hhost : host (95 :: nmLog) [.i32 len] prov = some ([.i32 addr], prov'))
    (h0 : prov'.load32 addr = some so) (h4 : prov'.load32 (addr + 4) = some d1)
    (h8 : prov'.load32 (addr + 8) = some len)
    (hsrc : (ptr + so) % 2 ^ 32 + len ≤ guest.size) (hdst : d1 + len ≤ prov'.size) :
    exec host M.funcs (fuel + 2) (.call f)
        { prov := prov, guest := guest, stack := .i32 len :: .i32 ptr :: rest, locals := locals, calls := calls } =
      .ok { prov := provAfterCopy prov' guest d1 ((ptr + so) % 2 ^ 32) len,
            guest := guest, stack := rest, locals := locals, calls := (95 :: nmLog, [.i32 len]) :: calls } := by
  have hs := (shape_of_export hM he hk).2.2.2.1 rfl
  obtain ⟨⟨pf, cp⟩, hc⟩ := Option.isSome_iff_exists.mp hs
  obtain ⟨h1, h2, h3⟩ := checkLog_sound hc
  exact log_exec_one host M.funcs f pf cp _ _ fuel h1 h2 h3 prov guest prov' ptr len addr so d1 rest locals calls
    hhost h0 h4 h8 hsrc hdst

/-- **log message in**, two segments: the retained part of the message goes into the two ring
    segments the plan names, in order; nothing else in either memory is touched -/
theorem C04_log_two_segments {M : Module} (hM : M ∈ glueModules) {k f : Nat} (he : (k, f) ∈ M.apiExports)
    {ps rs : List Nat} (hk : glueApi[k]? = some (nmLog, ps, rs))
    (host : Host) (fuel : Nat) (prov guest prov' : Mem) (ptr len addr so d1 l1 d2 l2 : Nat) (rest locals : List V)
    (calls : List (List Nat × List V))
    (hhost : host (95 :: nmLog) [.i32 len] prov = some ([.i32 addr], prov'))
    (h0 : prov'.load32 addr = some so) (h4 : prov'.load32 (addr + 4) = some d1)
    (h8 : prov'.load32 (addr + 8) = some l1) (hne : l1 ≠ len)
    (hsrc1 : (ptr + so) % 2 ^ 32 + l1 ≤ guest.size) (hdst1 : d1 + l1 ≤ prov'.size)
    -- convention: the plan words are disjoint from the first segment
    (hdisj : addr + 20 ≤ d1 ∨ d1 + l1 ≤ addr + 12)
    (h12 : prov'.load32 (addr + 12) = some d2) (h16 : prov'.load32 (addr + 16) = some l2)
    (hsrc2 : (ptr + so + l1) % 2 ^ 32 + l2 ≤ guest.size) (hdst2 : d2 + l2 ≤ prov'.size) :
    exec host M.funcs (fuel + 2) (.call f)
        { prov := prov, guest := guest, stack := .i32 len :: .i32 ptr :: rest, locals := locals, calls := calls } =
      .ok { prov := provAfterCopy (provAfterCopy prov' guest d1 ((ptr + so) % 2 ^ 32) l1) guest d2
                      ((ptr + so + l1) % 2 ^ 32) l2,
            guest := guest, stack := rest, locals := locals, calls := (95 :: nmLog, [.i32 len]) :: calls } := by
  have hs := (shape_of_export hM he hk).2.2.2.1 rfl
  obtain ⟨⟨pf, cp⟩, hc⟩ := Option.isSome_iff_exists.mp hs
  obtain ⟨h1, h2, h3⟩ := checkLog_sound hc
  have h12' := load32_provAfterCopy_disjoint prov' guest d1 ((ptr + so) % 2 ^ 32) l1 (addr + 12) (by omega)
  have h16' := load32_provAfterCopy_disjoint prov' guest d1 ((ptr + so) % 2 ^ 32) l1 (addr + 16) (by omega)
  exact log_exec_two host M.funcs f pf cp _ _ fuel h1 h2 h3 prov guest prov' ptr len addr so d1 l1 d2 l2 rest locals calls
    hhost h0 h4 h8 hne hsrc1 hdst1 (by rw [h12', h12]) (by rw [h16', h16]) hsrc2 hdst2

/-- **scalar calls reach the provider unchanged**: every other API import is, after
    trampolining, the provider's own function under the underscored name with the same
    signature — arguments and results pass through, the glue touches neither memory -/
theorem C04_scalar_calls {M : Module} (hM : M ∈ glueModules) {k f : Nat} (he : (k, f) ∈ M.apiExports)
    {name ps rs : List Nat} (hk : glueApi[k]? = some (name, ps, rs))
    (hn : name ≠ nmReadStr ∧ name ≠ nmGetProp ∧ name ≠ nmOutStr ∧ name ≠ nmIntern ∧ name ≠ nmLog)
    (host : Host) (fuel : Nat) (prov guest prov' : Mem) (args results rest locals : List V)
    (calls : List (List Nat × List V)) (hlen : args.length = ps.length)
    (hhost : host (95 :: name) args.reverse prov = some (results, prov')) :
    exec host M.funcs (fuel + 1) (.call f)
        { prov := prov, guest := guest, stack := args ++ rest, locals := locals, calls := calls } =
      .ok { prov := prov', guest := guest, stack := results.reverse ++ rest, locals := locals,
            calls := (95 :: name, args.reverse) :: calls } := by
  have hs := (shape_of_export hM he hk).2.2.2.2 hn
  exact renamed_exec host M.funcs f _ _ ps rs fuel (isImport_sound hs) prov guest prov' args results rest locals calls hlen hhost

/-- the five functions with glue are not this file's own choice: they are exactly the functions of
    the ABI whose C prototype takes a pointer into guest memory (regenerated from the header), so
    "every other API import" above never carries a guest address -/
theorem C04_pointer_functions_have_glue :
    (∀ n ∈ abiPointerFns, n = nmReadStr ∨ n = nmGetProp ∨ n = nmOutStr ∨ n = nmIntern ∨ n = nmLog) ∧
    (∀ n ∈ [nmReadStr, nmGetProp, nmOutStr, nmIntern, nmLog], n ∈ abiPointerFns) := by decide +kernel

/-- non-vacuity: the family has three modules, the first exports the whole API surface -/
example : glueModules.length = 8 ∧ (glueModules.head?.map (·.apiExports.length)) = some 19 := by decide +kernel

end SfVerif.Props.C04
