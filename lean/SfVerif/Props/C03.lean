import SfVerif.Model.Writer
import SfVerif.Lemmas.Codes
import SfVerif.Lemmas.Zipper
import SfVerif.Lemmas.GenFnsState
import SfVerif.Lemmas.Language2
import SfVerif.Lemmas.Frame3
import SfVerif.Gen.ApiStatus
import SfVerif.Lemmas.Sched
/-! C03 — the writer enforces the document grammar; a rejected call changes nothing. -/
namespace SfVerif.Props.C03
open SfVerif SfVerif.Gen

/-- **a rejected call leaves the output, the writer's position and the parent stack unchanged** -/
theorem C03_reject_noop (w : Writer) (op : WOp) (h : (w.step op).2.1 ≠ WriteResult_Ok) :
    (w.step op).1 = w := by
  obtain ⟨out, st, stack⟩ := w
  cases op <;> cases st <;>
    simp [Writer.step, WState.writeNonStringScalar, WState.writeString, WState.objWriteNonString,
      WState.objWriteString, WState.arrWriteValue, WState.startContainer, WState.finishObject,
      WState.finishArray, WState.popOrDone, Writer.appendBytes] at h ⊢ <;>
    (try split at h) <;> (try split) <;> simp_all

/-- every writer state reachable from a fresh one by any call sequence (errors included) -/
def Reachable (w : Writer) : Prop := ∃ ops : List WOp, w = (({} : Writer).run ops).2

theorem reachable_inv {w : Writer} (h : Reachable w) : WInv w := by
  obtain ⟨ops, rfl⟩ := h
  exact (run_refines ops {} winv_fresh).2.2

/-- **each call is answered exactly as the document grammar answers it**: in every reachable
    state (any stack of open containers, any fill level) and for each of the operations, the
    status code is the one `Spec/Grammar.G.step` gives for the document built so far — `Ok` iff the
    value fits (root slot free; key due and a string offered and pairs left; value due; array slot
    left; finish matches the innermost container and it is full), otherwise the documented code —
    and the writer afterwards stands for the grammar's document afterwards -/
theorem C03_call_answered_by_grammar (w : Writer) (h : Reachable w) (op : WOp) :
    (w.step op).2.1 = (w.abs.step op.tok).2 ∧ (w.step op).1.abs = (w.abs.step op.tok).1 :=
  let r := step_refines w (reachable_inv h) op; ⟨r.1, r.2.1⟩

/-- **every finite call sequence**, including those that keep going after errors and after
    completion: the statuses, call by call, are the grammar's, and so is the final document -/
theorem C03_history_answered_by_grammar (ops : List WOp) :
    ((({} : Writer).run ops).1 = (G.empty.run (ops.map WOp.tok)).1) ∧
    ((({} : Writer).run ops).2.abs = (G.empty.run (ops.map WOp.tok)).2) :=
  let r := run_refines ops {} winv_fresh; ⟨r.1, r.2.1⟩

/-- **the document is reported complete exactly when the root value has been closed** -/
theorem C03_complete_iff_root_closed (w : Writer) (h : Reachable w) :
    (w.finalize).1 = WriteResult_Ok ↔ w.abs = .complete := by
  have hI := reachable_inv h
  obtain ⟨fs, hfs⟩ := framesOf_some hI.stackOk
  unfold Writer.finalize Writer.abs
  cases hst : w.st <;> simp [hst, WState.frame, hfs]

/-- once complete, every further call is rejected and the document stays complete -/
theorem C03_complete_is_final (t : Tok) : (G.complete.step t).1 = .complete ∧ (G.complete.step t).2 ≠ WriteResult_Ok := by
  cases t <;> simp [G.step, G.value]

/-- the grammar itself never changes the document on a rejected call -/
theorem C03_grammar_reject_noop (g : G) (t : Tok) (h : (g.step t).2 ≠ WriteResult_Ok) : (g.step t).1 = g := by
  cases t <;> cases g <;> simp [G.step, G.value] at h ⊢ <;>
    (try split at h) <;> (try split) <;> (try split at h) <;> simp_all

/-- non-vacuity: a reachable state two containers deep with a key waiting -/
example : Reachable { out := #[0x91, 0x82, 0xa0], st := .obj 2 1, stack := [.arr 1 1] } :=
  ⟨[.arr 1, .obj 2, .strAlloc 0], by simp [Writer.run, Writer.step, WState.startContainer, WState.writeString, WState.arrWriteValue, WState.objWriteString, Writer.appendBytes, encArrLen, encMapLen, encStrLen]⟩

/-- **the language of the grammar**: a call sequence is accepted call by call from the empty
    document and leaves it complete **iff** it is the token string of a tree (one root value; an
    object = its declared number of string-key / value pairs then a finish; an array = its
    declared number of values then a finish; any nesting) -/
theorem C03_language_of_the_grammar (ts : List Tok) :
    (allOk (G.empty.run ts).1 ∧ (G.empty.run ts).2 = .complete) ↔ ∃ t : Tree, ts = t.toks := by
  constructor
  · rintro ⟨h1, h2⟩; exact language_complete ts h1 h2
  · rintro ⟨t, rfl⟩; exact language_sound t

/-- the same for the writer: every call of a sequence is accepted and finalisation then succeeds
    **iff** the sequence describes a tree -/
theorem C03_accepted_complete_sequences_are_trees (ops : List WOp) :
    (allOk (({} : Writer).run ops).1 ∧ ((({} : Writer).run ops).2.finalize).1 = WriteResult_Ok) ↔
    ∃ t : Tree, ops.map WOp.tok = t.toks := by
  obtain ⟨h1, h2⟩ := C03_history_answered_by_grammar ops
  have hreach : Reachable (({} : Writer).run ops).2 := ⟨ops, rfl⟩
  rw [C03_complete_iff_root_closed _ hreach, h1, h2]
  exact C03_language_of_the_grammar (ops.map WOp.tok)

/-- non-vacuity: `{"k": [s, s]}` as a tree and its calls -/
example : (Tree.obj [.arr [.scalar, .string]]).toks =
    [.beginObj 1, .string, .beginArr 2, .scalar, .string, .endArr, .endObj] := by
  simp [Tree.toks, Tree.pairToks, Tree.elemToks]

/-- **tie by translation**: the model of the write state machine is equal, method by method, to
    the definitions regenerated from the function bodies of provider/src/write/state.rs
    (`ObjectState::write_string`, `ObjectState::write_non_string_value`, `ArrayState::write_value`,
    `State::write_string`, `write_non_string_scalar`, `start_object`, `start_array`,
    `finish_object`, `finish_array`; `swap_and_push` and the data declarations are checked for
    their shape) — so the refinement theorems above are about what the source says now -/
theorem C03_state_machine_is_the_source_text (l n len : Nat) (st : WState) (stack : List WState) :
    WState.objWriteString l n = (.obj l (obj_write_string l n).2, (obj_write_string l n).1) ∧
    WState.objWriteNonString l n = (.obj l (obj_write_non_string_value l n).2, (obj_write_non_string_value l n).1) ∧
    WState.arrWriteValue l n = (.arr l (arr_write_value l n).2, (arr_write_value l n).1) ∧
    state_write_string st stack = ((WState.writeString st).1, stack, (WState.writeString st).2) ∧
    state_write_non_string_scalar st stack = ((WState.writeNonStringScalar st).1, stack, (WState.writeNonStringScalar st).2) ∧
    state_start_object len st stack = WState.startContainer (.obj len 0) st stack ∧
    state_start_array len st stack = WState.startContainer (.arr len 0) st stack ∧
    state_finish_object st stack = WState.finishObject st stack ∧
    state_finish_array st stack = WState.finishArray st stack :=
  ⟨gen_obj_write_string_eq l n, gen_obj_write_non_string_eq l n, gen_arr_write_value_eq l n,
   gen_state_write_string_eq st stack, gen_state_write_non_string_scalar_eq st stack,
   gen_state_start_object_eq len st stack, gen_state_start_array_eq len st stack,
   gen_state_finish_object_eq st stack, gen_state_finish_array_eq st stack⟩

/-- **C03 at the level of a whole thread, every history**: whatever protocol operations a thread has
    performed — reads, logs, interning, typed (de)serialisation, new invocations, accepted and rejected
    write calls, string writes in one piece or as allocation + copy — the next write call, whichever it
    is, is answered with the status the document grammar gives at the position the document is in, moves
    the document as the grammar says, and changes nothing when it is rejected -/
theorem C03_every_history (w : Nat) (ops : List Op) (op : WOp) :
    let wr := (Thread.run w {} ops).1.ctx.writer
    (wr.step op).2.1 = (wr.abs.step op.tok).2 ∧ (wr.step op).1.abs = (wr.abs.step op.tok).1 ∧
    ((wr.step op).2.1 ≠ WriteResult_Ok → (wr.step op).1 = wr) := by
  intro wr
  have hI : WInv wr := Thread.run_winv w ops {} winv_fresh
  obtain ⟨h1, h2, _⟩ := step_refines wr hI op
  exact ⟨h1, h2, C03_reject_noop wr op⟩

/-- … and finalisation succeeds exactly when the root value has been closed -/
theorem C03_every_history_complete (w : Nat) (ops : List Op) :
    let wr := (Thread.run w {} ops).1.ctx.writer
    (wr.finalize).1 = WriteResult_Ok ↔ wr.abs = .complete := by
  intro wr
  have hI : WInv wr := Thread.run_winv w ops {} winv_fresh
  obtain ⟨fs, hfs⟩ := framesOf_some hI.stackOk
  unfold Writer.finalize Writer.abs
  cases hst : wr.st <;> simp [WState.frame, hfs]

/-- **C03 under every interleaving of any number of threads**: whatever any threads have done in
    whatever order, the next write call on thread `t` is answered by the grammar at the position
    thread `t`'s own document is in, and a rejected call changes nothing; finalisation succeeds exactly
    when that thread's root value has been closed. (Schedule theorem: `Lemmas/Sched`.) -/
theorem C03_every_schedule (w : Nat) (sched : Sys.Sched) (t : Nat) (op : WOp) :
    let wr := ((Sys.runSched w {} sched).1.get t).ctx.writer
    ((wr.step op).2.1 = (wr.abs.step op.tok).2 ∧ (wr.step op).1.abs = (wr.abs.step op.tok).1 ∧
      ((wr.step op).2.1 ≠ WriteResult_Ok → (wr.step op).1 = wr)) ∧
    ((wr.finalize).1 = WriteResult_Ok ↔ wr.abs = .complete) := by
  have h := (SfVerif.Props.C14.noninterference_from w t sched {}).2
  have h0 : ({} : Sys).get t = {} := by simp [Sys.get]
  rw [h, h0]
  exact ⟨C03_every_history w _ op, C03_every_history_complete w _⟩

/-- the status a call is answered with reaches the caller of the api crate under the same name:
    the api crate's status-to-error match (regenerated from api/src/write.rs) is the identity on names,
    covers every status of the code table, and maps `Ok` to success only -/
theorem C03_api_reports_the_same_status :
    apiWriteStatusMap.map (·.1) = WriteResult_table.map (·.1) ∧ (∀ p ∈ apiWriteStatusMap, p.2 = p.1) := by
  decide +kernel

end SfVerif.Props.C03
