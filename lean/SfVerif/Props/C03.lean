import SfVerif.Model.Writer
import SfVerif.Lemmas.Codes
/-! C03 — the writer enforces the document grammar; a rejected call changes nothing. -/
namespace SfVerif.Props.C03
open SfVerif SfVerif.Gen

/-- **a rejected call leaves the output, the writer's position and the parent stack unchanged** -/
theorem C03_reject_noop (w : Writer) (op : WOp) (h : (w.step op).2.1 ≠ WriteResult_Ok) :
    (w.step op).1 = w := by
  obtain ⟨out, st, stack⟩ := w
  cases op <;> cases st <;>
    simp [Writer.step, WState.writeNonStringScalar, WState.writeString, WState.objWriteNonString,
      WState.objWriteString, WState.arrWriteValue, WState.startContainer, WState.finishObject,
      WState.finishArray, WState.popOrDone, Writer.appendBytes] at h ⊢ <;>
    (try split at h) <;> (try split) <;> simp_all

end SfVerif.Props.C03
