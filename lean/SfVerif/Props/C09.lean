import SfVerif.Spec.TypedDoc
import SfVerif.Lemmas.F64Exact
import SfVerif.Lemmas.DeDoc4
import SfVerif.Props.C02
/-! C09 — typed serialisation and deserialisation are inverse to each other (document level:
    `TVal.doc` is the tree the accepted writes of `Serialize` build, `deDoc` is `Deserialize` read
    off a decoded tree; the byte-level links are C02 and C01). -/
namespace SfVerif.Props.C09
open SfVerif

def i32Ty : Ty := .int (-2147483648) 2147483647

/-- can a value of this type serialise to `nil`? -/
def nullable : Ty → Bool
  | .unit => true
  | .opt _ => true
  | _ => false

/-- no `Option` sits directly over a type that can itself serialise to `nil` -/
def nullFree : Ty → Bool
  | .opt t => !nullable t && nullFree t
  | .vec t => nullFree t
  | .map t => nullFree t
  | _ => true

mutual
/-- the typing judgement of the write-side family: unit, bool, i32, non-NaN f64, strings,
    options, vectors / slices, string-keyed maps -/
def hasTy : Ty → TVal → Bool
  | .unit, .unit => true
  | .bool, .bool _ => true
  | .int lo hi, .int z => lo == -2147483648 && hi == 2147483647 && decide (-2147483648 ≤ z) && decide (z ≤ 2147483647)
  | .f64, .f64 b => decide (b < 2 ^ 64) && !F64.isNaN b
  | .str, .str _ => true
  | .opt _, .none => true
  | .opt t, .some v => hasTy t v
  | .vec t, .seq vs => hasTyList t vs
  | .map t, .map ps => hasTyPairs t ps
  | _, _ => false
def hasTyList : Ty → List TVal → Bool
  | _, [] => true
  | t, v :: vs => hasTy t v && hasTyList t vs
def hasTyPairs : Ty → List (Bytes × TVal) → Bool
  | _, [] => true
  | t, (_, v) :: ps => hasTy t v && hasTyPairs t ps
end

/-- a value that is not `none`/unit/`some …` never serialises to `nil` … -/
theorem doc_ne_nil_of_not_nullable (t : Ty) (v : TVal) (h : hasTy t v = true) (hn : nullable t = false) :
    v.doc ≠ .nil := by
  cases t <;> cases v <;> simp_all [hasTy, nullable, TVal.doc]

mutual
/-- **C09 round trip (partial: `nullFree`)**: for every value of the supported family whose type
    has no `Option` directly over a nullable type, deserialising the document that its
    serialisation builds returns the value itself. The full statement is false without
    `nullFree`: `C09_option_over_nullable_counterexample` (known finding F10). -/
theorem C09_roundtrip_partial : ∀ (t : Ty) (v : TVal), hasTy t v = true → nullFree t = true →
    deDoc t v.doc = some v
  | .unit, .unit, _, _ => by simp [deDoc, TVal.doc]
  | .bool, .bool b, _, _ => by simp [deDoc, TVal.doc]
  | .int lo hi, .int z, h, _ => by
    simp only [hasTy, Bool.and_eq_true, beq_iff_eq, decide_eq_true_eq] at h
    obtain ⟨⟨⟨rfl, rfl⟩, h1⟩, h2⟩ := h
    have hz : z.natAbs < 2 ^ 53 := by omega
    have hex := F64.toInt?_ofInt z hz
    have hlo : F64.toInt? (F64.ofInt (-2147483648)) = some (-2147483648) := by decide +kernel
    have hhi : F64.toInt? (F64.ofInt 2147483647) = some 2147483647 := by decide +kernel
    simp only [deDoc, TVal.doc, Doc.num?, deInt, hex, hlo, hhi, h1, h2, and_self, if_true]
    have : satCast (-2147483648) 2147483647 z = z := by
      unfold satCast
      split
      · omega
      · split <;> omega
    rw [this]
  | .f64, .f64 b, h, _ => by
    simp only [hasTy, Bool.and_eq_true, decide_eq_true_eq, Bool.not_eq_true'] at h
    simp [deDoc, TVal.doc, Doc.num?, h.2]
  | .str, .str bs, _, _ => by simp [deDoc, TVal.doc]
  | .opt t, .none, _, _ => by simp [deDoc, TVal.doc]
  | .opt t, .some v, h, hn => by
    simp only [hasTy] at h
    simp only [nullFree, Bool.and_eq_true, Bool.not_eq_true'] at hn
    have hne := doc_ne_nil_of_not_nullable t v h hn.1
    have ih := C09_roundtrip_partial t v h hn.2
    simp only [TVal.doc]
    unfold deDoc
    split
    · rename_i heq; exact absurd heq hne
    · simp [ih]
  | .vec t, .seq vs, h, hn => by
    simp only [hasTy] at h
    simp only [nullFree] at hn
    simp [deDoc, TVal.doc, roundtripList t vs h hn]
  | .map t, .map ps, h, hn => by
    simp only [hasTy] at h
    simp only [nullFree] at hn
    simp [deDoc, TVal.doc, roundtripPairs t ps h hn]
  | .unit, .bool _, h, _ | .unit, .int _, h, _ | .unit, .f64 _, h, _ | .unit, .str _, h, _ | .unit, .none, h, _
  | .unit, .some _, h, _ | .unit, .seq _, h, _ | .unit, .map _, h, _ | .unit, .tup _, h, _ | .unit, .chr _, h, _ => by
    simp [hasTy] at h
  | .bool, .unit, h, _ | .bool, .int _, h, _ | .bool, .f64 _, h, _ | .bool, .str _, h, _ | .bool, .none, h, _
  | .bool, .some _, h, _ | .bool, .seq _, h, _ | .bool, .map _, h, _ | .bool, .tup _, h, _ | .bool, .chr _, h, _ => by
    simp [hasTy] at h
  | .f64, .unit, h, _ | .f64, .bool _, h, _ | .f64, .int _, h, _ | .f64, .str _, h, _ | .f64, .none, h, _
  | .f64, .some _, h, _ | .f64, .seq _, h, _ | .f64, .map _, h, _ | .f64, .tup _, h, _ | .f64, .chr _, h, _ => by
    simp [hasTy] at h
  | .str, .unit, h, _ | .str, .bool _, h, _ | .str, .int _, h, _ | .str, .f64 _, h, _ | .str, .none, h, _
  | .str, .some _, h, _ | .str, .seq _, h, _ | .str, .map _, h, _ | .str, .tup _, h, _ | .str, .chr _, h, _ => by
    simp [hasTy] at h
  | .char, _, h, _ => by simp [hasTy] at h
  | .int _ _, .unit, h, _ | .int _ _, .bool _, h, _ | .int _ _, .f64 _, h, _ | .int _ _, .str _, h, _ | .int _ _, .none, h, _
  | .int _ _, .some _, h, _ | .int _ _, .seq _, h, _ | .int _ _, .map _, h, _ | .int _ _, .tup _, h, _ | .int _ _, .chr _, h, _ => by
    simp [hasTy] at h
  | .opt _, .unit, h, _ | .opt _, .bool _, h, _ | .opt _, .int _, h, _ | .opt _, .f64 _, h, _ | .opt _, .str _, h, _
  | .opt _, .seq _, h, _ | .opt _, .map _, h, _ | .opt _, .tup _, h, _ | .opt _, .chr _, h, _ => by
    simp [hasTy] at h
  | .vec _, .unit, h, _ | .vec _, .bool _, h, _ | .vec _, .int _, h, _ | .vec _, .f64 _, h, _ | .vec _, .str _, h, _
  | .vec _, .none, h, _ | .vec _, .some _, h, _ | .vec _, .map _, h, _ | .vec _, .tup _, h, _ | .vec _, .chr _, h, _ => by
    simp [hasTy] at h
  | .map _, .unit, h, _ | .map _, .bool _, h, _ | .map _, .int _, h, _ | .map _, .f64 _, h, _ | .map _, .str _, h, _
  | .map _, .none, h, _ | .map _, .some _, h, _ | .map _, .seq _, h, _ | .map _, .tup _, h, _ | .map _, .chr _, h, _ => by
    simp [hasTy] at h
  | .tup _, _, h, _ => by simp [hasTy] at h
  | .arrN _ _, _, h, _ => by simp [hasTy] at h
theorem roundtripList : ∀ (t : Ty) (vs : List TVal), hasTyList t vs = true → nullFree t = true →
    deDocs t (TVal.docs vs) = some vs
  | _, [], _, _ => by simp [deDocs, TVal.docs]
  | t, v :: vs, h, hn => by
    simp only [hasTyList, Bool.and_eq_true] at h
    simp [deDocs, TVal.docs, C09_roundtrip_partial t v h.1 hn, roundtripList t vs h.2 hn]
theorem roundtripPairs : ∀ (t : Ty) (ps : List (Bytes × TVal)), hasTyPairs t ps = true → nullFree t = true →
    deDocPairs t (TVal.docPairs ps) = some ps
  | _, [], _, _ => by simp [deDocPairs, TVal.docPairs]
  | t, (k, v) :: ps, h, hn => by
    simp only [hasTyPairs, Bool.and_eq_true] at h
    simp [deDocPairs, TVal.docPairs, C09_roundtrip_partial t v h.1 hn, roundtripPairs t ps h.2 hn]
end

/-- the excluded shape, proved: `Some(())` (and `Some(None)`) serialise to `nil` and come back as `None` -/
theorem C09_option_over_nullable_counterexample :
    deDoc (.opt .unit) (TVal.some .unit).doc = some .none ∧
    deDoc (.opt (.opt i32Ty)) (TVal.some .none).doc = some .none := by
  simp [deDoc, TVal.doc]

/-- no coercion: a document that is not a number is never accepted as a number, a number never as
    a string / bool / unit / container, a container of the wrong kind or (for fixed arrays and
    tuples) the wrong length never as that type -/
theorem C09_mismatch_rejected (d : Doc) :
    (d.num? = none → ∀ lo hi, deDoc .f64 d = none ∧ deDoc (.int lo hi) d = none) ∧
    ((∀ bs, d ≠ .str bs) → deDoc .str d = none ∧ deDoc .char d = none) ∧
    ((∀ b, d ≠ .bool b) → deDoc .bool d = none) ∧
    (d ≠ .nil → deDoc .unit d = none) ∧
    ((∀ xs, d ≠ .arr xs) → ∀ t n ts, deDoc (.vec t) d = none ∧ deDoc (.arrN n t) d = none ∧ deDoc (.tup ts) d = none) ∧
    ((∀ ps, d ≠ .map ps) → ∀ t, deDoc (.map t) d = none) := by
  refine ⟨?_, ?_, ?_, ?_, ?_, ?_⟩
  · intro h lo hi; simp [deDoc, h]
  · intro h; cases d <;> simp_all [deDoc]
  · intro h; cases d <;> simp_all [deDoc]
  · intro h; cases d <;> simp_all [deDoc]
  · intro h t n ts; cases d <;> simp_all [deDoc]
  · intro h t; cases d <;> simp_all [deDoc]

/-- a fixed-size array or tuple of the wrong length is rejected -/
theorem C09_wrong_length_rejected (xs : List Doc) (n : Nat) (t : Ty) (ts : List Ty) :
    (xs.length ≠ n → deDoc (.arrN n t) (.arr xs) = none) ∧
    (xs.length ≠ ts.length → deDoc (.tup ts) (.arr xs) = none) := by
  constructor <;> intro h <;> simp [deDoc, h]

/-! ### through the bytes: writer, lazy reader and typed layer composed -/

/-- **reading a document through the provider calls = reading the decoded tree**, for every type
    of the read-side family (unit, bool, every integer range, f64, String, char, Option, Vec,
    fixed arrays, tuples, string-keyed maps, any nesting): in any reachable context over an input
    that decodes to `d`, `Deserialize` on the boxed root (or any boxed sub-document) returns
    exactly `deDoc ty` of that sub-document — success and failure alike -/
theorem C09_typed_read_is_tree_read (b : Bytes) (d : Doc) (hd : Decodes b d) (hints : IntsOK d) (ty : Ty)
    (c : Ctx) (rv : RVal) (dc : Doc) (hc : CInv c) (hb : c.input = b) (hbox : Boxed c d rv dc) :
    (deTy c ty rv).2 = deDoc ty dc := by
  obtain ⟨c', h, _⟩ := deTy_doc hd hints ty c rv dc hc hb hbox
  rw [h]

/-- **C09 at byte level (partial: `nullFree`)**: serialise a value of the write-side family
    through the write calls into a fresh output document, finalise, hand the bytes to a fresh
    invocation as its input, fetch the root and deserialise through the read calls of the lazy
    reader: the value comes back. Composes C02 (the bytes decode to the value's tree), C01 (lazy
    reads are reads of the decoded tree) and the document-level round trip. -/
theorem C09_bytes_roundtrip_partial (t : Ty) (v : TVal) (ht : hasTy t v = true) (hn : nullFree t = true)
    (hw : wfV v = true) (c0 : Ctx) :
    let bytes := (runAOps {} v.ser).1.out
    let c := (c0.reinit bytes).inputGet
    (deTy c.1 t c.2).2 = some v := by
  intro bytes c
  have hC02 := SfVerif.Props.C02.C02_completed_output_is_the_tree v hw
  have hdec : Decodes bytes v.doc := ⟨hC02.2.2.2.2, keysStr_doc v⟩
  have hints : IntsOK v.doc := intsOK_of_intsB (intsB_doc v hw)
  have hc0 : CInv (c0.reinit bytes) := by intro k r hk; simp [Ctx.reinit, Ctx.fresh] at hk
  obtain ⟨h1, h2, h3, _, _, _, h7⟩ := inputGet_ok hc0
  have hroot : c.2 = v.doc.box ⟨0, []⟩ := by
    show (Ctx.inputGet (c0.reinit bytes)).2 = _
    rw [h1]
    exact valueAt_doc hdec (path := []) rfl 0
  have hbox : Boxed c.1 v.doc c.2 v.doc :=
    ⟨⟨0, []⟩, hroot, rfl, fun hr => by
      have := h7
      rw [show (Ctx.inputGet (c0.reinit bytes)).2 = v.doc.box ⟨0, []⟩ from hroot] at this
      exact handleOK_ref hr this⟩
  rw [C09_typed_read_is_tree_read bytes v.doc hdec hints t c.1 c.2 v.doc h2 h3 hbox]
  exact C09_roundtrip_partial t v ht hn

/-- non-vacuity: `Vec<Option<HashMap<String, Vec<i32>>>>` is in the family and a value of it type-checks -/
example : nullFree (.vec (.opt (.map (.vec i32Ty)))) = true ∧
    hasTy (.vec (.opt (.map (.vec i32Ty)))) (.seq [.none, .some (.map [(#[97], .seq [.int 1, .int (-7)])])]) = true := by
  decide

end SfVerif.Props.C09
