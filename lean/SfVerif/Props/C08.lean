import SfVerif.Lemmas.Hdr
import SfVerif.Model.Ctx
import SfVerif.Lemmas.Codes
/-! C08 — arbitrary input bytes never yield a wrong value, a crash or a stray string. -/
namespace SfVerif.Props.C08
open SfVerif SfVerif.Gen

/-- every string the header reader reports — values and keys alike — lies entirely inside the
    input, for every byte string and every position -/
theorem C08_header_strings_inside (b : Bytes) (pos off len e : Nat)
    (h : readHdr b pos = some (.scalar (.str off len) e)) : off + len ≤ b.size ∧ e = off + len :=
  ⟨(readHdr_str_inside h).1, (readHdr_str_inside h).2.1⟩

/-- a declared container length that is accepted (and so reaches the allocator) never exceeds the
    bytes that remain: one byte per element, two per pair -/
theorem C08_alloc_bounded (b : Bytes) (pos len body : Nat) :
    (readHdr b pos = some (.arr len body) → len ≤ b.size - body ∧ body ≤ b.size) ∧
    (readHdr b pos = some (.map len body) → 2 * len ≤ b.size - body ∧ body ≤ b.size) := by
  constructor
  · intro h; have := readHdr_arr_gt h; omega
  · intro h; have := readHdr_map_gt h; omega

/-- every header consumes at least one byte and ends inside the input (progress: the eager walk
    and the lazy walk both terminate, and offsets never run past the end) -/
theorem C08_header_progress (b : Bytes) (pos : Nat) (h : Hdr) (hh : readHdr b pos = some h) :
    pos < b.size ∧
    (match h with
     | .scalar _ e => pos < e ∧ e ≤ b.size
     | .arr _ body => pos < body ∧ body ≤ b.size
     | .map _ body => pos < body ∧ body ≤ b.size) := by
  have hs := readHdr_shape hh
  cases hs <;> simp <;> omega

/-- a NaN number is answered with the read-error value, never boxed (F4) -/
theorem C08_nan_is_error (h : Handle) (bits : Nat) (hn : F64.isNaN bits = true) :
    Ctx.encodeNode h (.scalar (.num bits)) = .err ErrorCode_ReadError := by
  simp [Ctx.encodeNode, hn]

/-- reading past the end, reserved and unsupported markers (0xc1, bin, ext) are read errors -/
theorem C08_unsupported_markers (b : Bytes) (p : Nat) :
    hdrTagged b p 0xc1 = none ∧ hdrTagged b p 0xc4 = none ∧ hdrTagged b p 0xc5 = none ∧
    hdrTagged b p 0xc6 = none ∧ hdrTagged b p 0xc7 = none ∧ hdrTagged b p 0xc8 = none ∧
    hdrTagged b p 0xc9 = none ∧ hdrTagged b p 0xd4 = none ∧ hdrTagged b p 0xd5 = none ∧
    hdrTagged b p 0xd6 = none ∧ hdrTagged b p 0xd7 = none ∧ hdrTagged b p 0xd8 = none := by
  simp [hdrTagged]

end SfVerif.Props.C08
