import SfVerif.Lemmas.Hdr
import SfVerif.Model.Ctx
import SfVerif.Lemmas.Codes
import SfVerif.Lemmas.Ctx5
import SfVerif.Lemmas.GenMarkers
/-! C08 — arbitrary input bytes never yield a wrong value, a crash or a stray string. -/
namespace SfVerif.Props.C08
open SfVerif SfVerif.Gen

/-- every string the header reader reports — values and keys alike — lies entirely inside the
    input, for every byte string and every position -/
theorem C08_header_strings_inside (b : Bytes) (pos off len e : Nat)
    (h : readHdr b pos = some (.scalar (.str off len) e)) : off + len ≤ b.size ∧ e = off + len :=
  ⟨(readHdr_str_inside h).1, (readHdr_str_inside h).2.1⟩

/-- a declared container length that is accepted (and so reaches the allocator) never exceeds the
    bytes that remain: one byte per element, two per pair -/
theorem C08_alloc_bounded (b : Bytes) (pos len body : Nat) :
    (readHdr b pos = some (.arr len body) → len ≤ b.size - body ∧ body ≤ b.size) ∧
    (readHdr b pos = some (.map len body) → 2 * len ≤ b.size - body ∧ body ≤ b.size) := by
  constructor
  · intro h; have := readHdr_arr_gt h; omega
  · intro h; have := readHdr_map_gt h; omega

/-- every header consumes at least one byte and ends inside the input (progress: the eager walk
    and the lazy walk both terminate, and offsets never run past the end) -/
theorem C08_header_progress (b : Bytes) (pos : Nat) (h : Hdr) (hh : readHdr b pos = some h) :
    pos < b.size ∧
    (match h with
     | .scalar _ e => pos < e ∧ e ≤ b.size
     | .arr _ body => pos < body ∧ body ≤ b.size
     | .map _ body => pos < body ∧ body ≤ b.size) := by
  have hs := readHdr_shape hh
  cases hs <;> simp <;> omega

/-- a NaN number is answered with the read-error value, never boxed (F4) -/
theorem C08_nan_is_error (h : Handle) (bits : Nat) (hn : F64.isNaN bits = true) :
    Ctx.encodeNode h (.scalar (.num bits)) = .err ErrorCode_ReadError := by
  simp [Ctx.encodeNode, hn]

/-- reading past the end, reserved and unsupported markers (0xc1, bin, ext) are read errors -/
theorem C08_unsupported_markers (b : Bytes) (p : Nat) :
    hdrTagged b p 0xc1 = none ∧ hdrTagged b p 0xc4 = none ∧ hdrTagged b p 0xc5 = none ∧
    hdrTagged b p 0xc6 = none ∧ hdrTagged b p 0xc7 = none ∧ hdrTagged b p 0xc8 = none ∧
    hdrTagged b p 0xc9 = none ∧ hdrTagged b p 0xd4 = none ∧ hdrTagged b p 0xd5 = none ∧
    hdrTagged b p 0xd6 = none ∧ hdrTagged b p 0xd7 = none ∧ hdrTagged b p 0xd8 = none := by
  simp [hdrTagged]

/-! ### every byte string × every history -/

/-- **arbitrary bytes, every history**: for ANY byte string supplied as input — truncated,
    corrupted, random — and any finite sequence of read calls on handles the client was given, the
    answers are exactly `Spec.run`: computed from the bytes by the sequential header walk
    (`specPath`, `specPair`, `specProp`), which answers `ReadError` wherever that walk cannot
    decode. No hypothesis on the input. -/
theorem C08_every_history_arbitrary_bytes (c0 : Ctx) (b : Bytes) (ops : List ROp)
    (hresp : Spec.respects b 0 [] ops) :
    ((c0.reinit b).rrun ops).1 = Spec.run b 0 ops := by
  have h1 : CInv (c0.reinit b) := by intro k r hk; simp [Ctx.reinit, Ctx.fresh] at hk
  exact (rrun_ok ops (c0.reinit b) [] h1 (by intro h hh; cases hh) hresp).1

/-- **never a fabricated value**: whatever the specification (hence the provider) answers for a
    position is either the read-error value or the boxed header the sequential decoder reads at
    that position — for every byte string -/
theorem C08_value_or_error (b : Bytes) (root : Nat) (path : Path) :
    Spec.valueAt b root path = .err ErrorCode_ReadError ∨
    ∃ p hd, specPath b 0 path = some p ∧ readHdr b p = some hd ∧
      Spec.valueAt b root path = Ctx.encodeNode { root := root, path := path } (mkNode hd) := by
  cases hp : specPath b 0 path with
  | none => left; simp only [Spec.valueAt, hp]
  | some p =>
    cases hh : readHdr b p with
    | none => left; simp only [Spec.valueAt, hp, hh]
    | some hd => right; exact ⟨p, hd, rfl, hh, by simp only [Spec.valueAt, hp, hh]⟩

/-- **every string the provider reports lies entirely inside the input**: in any context with
    correct roots (every reachable one), a valid handle that denotes a string — a value or a
    key — has offset + length within the input bytes; this is the extent `read_utf8_str` copies -/
theorem C08_strings_inside_input (c : Ctx) (hc : CInv c) (h : Handle) (off len : Nat)
    (hm : c.nodeAt? h = some (.scalar (.str off len))) :
    off + len ≤ c.input.size ∧ c.strOffset h = some off ∧ c.getValLen (.node h) = some len := by
  obtain ⟨pos, hd, _, hh, hinv, _, _⟩ := nodeAt_spec hc hm
  cases hinv with
  | scalar hh' =>
    exact ⟨(readHdr_str_inside hh').1, by simp [Ctx.strOffset, hm], by simp [Ctx.getValLen, hm, Node.valueLength]⟩

/-- **repeating a call gives the same answer**, on any input: the second call runs in the context
    the first one left behind (more of the tree parsed), and still answers the same -/
theorem C08_repeat_same_answer (c : Ctx) (hc : CInv c) (h : Handle) (m : Node) (hm : c.nodeAt? h = some m)
    (i : Nat) (q : Bytes) :
    ((c.getAtIndex (.node h) i).1.getAtIndex (.node h) i).2 = (c.getAtIndex (.node h) i).2 ∧
    ((c.getKeyAtIndex (.node h) i).1.getKeyAtIndex (.node h) i).2 = (c.getKeyAtIndex (.node h) i).2 ∧
    ((c.getObjProp (.node h) q).1.getObjProp (.node h) q).2 = (c.getObjProp (.node h) q).2 := by
  refine ⟨?_, ?_, ?_⟩
  · obtain ⟨h1, h2⟩ := getAtIndex_node_ok hc hm i
    obtain ⟨m', hm', _⟩ := h2.kept h m hm
    rw [(getAtIndex_node_ok h2.inv hm' i).1, h2.input, h1]
  · obtain ⟨h1, h2⟩ := getKeyAtIndex_node_ok hc hm i
    obtain ⟨m', hm', _⟩ := h2.kept h m hm
    rw [(getKeyAtIndex_node_ok h2.inv hm' i).1, h2.input, h1]
  · obtain ⟨h1, h2⟩ := getObjProp_node_ok hc hm q
    obtain ⟨m', hm', _⟩ := h2.kept h m hm
    rw [(getObjProp_node_ok h2.inv hm' q).1, h2.input, h1]

/-- an error leaves every root a correct partial view and every handle valid: a failed call
    costs nothing but the answer -/
theorem C08_errors_keep_state_sound (c : Ctx) (hc : CInv c) (h : Handle) (m : Node) (hm : c.nodeAt? h = some m)
    (i : Nat) (q : Bytes) :
    ReadStepOK c (c.getAtIndex (.node h) i).1 (c.getAtIndex (.node h) i).2 ∧
    ReadStepOK c (c.getKeyAtIndex (.node h) i).1 (c.getKeyAtIndex (.node h) i).2 ∧
    ReadStepOK c (c.getObjProp (.node h) q).1 (c.getObjProp (.node h) q).2 :=
  ⟨(getAtIndex_node_ok hc hm i).2, (getKeyAtIndex_node_ok hc hm i).2, (getObjProp_node_ok hc hm q).2⟩

/-- non-vacuity: a corrupted document `[1, 0xc1]` (reserved marker): the root and element 0
    are answered, element 1 is a read error — by the specification, hence by the provider -/
example : Spec.run #[0x92, 1, 0xc1] 0 [.root, .atIndex (.node ⟨0, []⟩) 0, .atIndex (.node ⟨0, []⟩) 1] =
    [.val (.arr ⟨0, []⟩ 2), .val (.num (F64.ofNat 1)), .val (.err ErrorCode_ReadError)] := by
  simp [Spec.run, Spec.answer, Spec.valueAt, Spec.getAtIndex, Spec.hdrAt, specPath, specChild, eagerFuel, skip, skipN,
    readHdr, hdrOfMarker, hdrFix, hdrTagged, arrHdr, mkNode, Ctx.encodeNode, ROp.nextRoots]
  decide

/-- **tie by translation** (shared with C01): the model's header reader is the regenerated dispatch -/
theorem C08_header_reader_is_the_source_text (b : Bytes) (p m : Nat) : hdrOfMarkerGen b p m = hdrOfMarker b p m :=
  gen_hdrOfMarker_eq b p m

end SfVerif.Props.C08
