import SfVerif.Gen.Abi
import SfVerif.Gen.AbiTool
import SfVerif.Gen.Enums
import SfVerif.Gen.ApiStatus
/-! C15 — all descriptions of the ABI agree. The quantifier is a finite table (every function of
    the ABI × every artefact), regenerated from /repo on every run; `decide +kernel` over the whole
    table is therefore a proof, re-done against what the artefacts say now. -/
namespace SfVerif.Props.C15
open SfVerif.Gen

def names (t : List Sig) : List (List Nat) := t.map (·.1)

/-- the C header, compiled now for wasm32, imports exactly the functions the WAT describes, with the same signatures -/
theorem C15_wat_eq_header : abiWat = abiHeader := by decide +kernel

/-- the Rust import block declares exactly the same functions with the same wasm32 signatures -/
theorem C15_wat_eq_rust_extern : abiWat = abiRustExtern := by decide +kernel

/-- the trampoline's table accepts exactly the API's function names -/
theorem C15_trampoline_accepts_api : trampolineAcceptsNames = names abiWat := by decide +kernel

/-- the signatures the trampoline insists on for the string-carrying imports are the public ones -/
theorem C15_trampoline_expected_sigs : ∀ e ∈ trampolineExpectedSigs, e ∈ abiWat := by decide +kernel

/-- every low-level import the trampoline emits exists in the provider with the same signature -/
theorem C15_emitted_exist_in_provider : ∀ e ∈ trampolineEmits, e ∈ providerExports := by decide +kernel

/-- the names the trampoline tolerates beyond its table are provider exports (or the memory) -/
theorem C15_allow_list_in_provider :
    ∀ n ∈ trampolineAllowList, n ∈ names providerExports ∨ n = [109, 101, 109, 111, 114, 121] := by
  decide +kernel

/-- the probed behaviour agrees with the static table: an import that is only renamed comes out under
    the name the `IMPORTS` table gives it, and nothing stays behind under its public name -/
theorem C15_tool_renames_agree_with_table :
    (∀ p ∈ toolRenames, p ∈ trampolineImportPairs) ∧ toolLeftInApi = [] := by decide +kernel

/-- where the tool insists on a signature it does so for every occurrence of the import: no function is
    accepted when imported twice, once with the public signature and once with a perturbed one -/
theorem C15_signature_checked_at_every_occurrence : toolAcceptsDupBadSig = [] := by decide +kernel

/-- the tool takes no other spelling of the module name for the API namespace: of the probed names
    `shopify_function_v<x>` (other numbers, leading zeros, a sign, suffixes, nothing) none is accepted -/
theorem C15_only_the_documented_module_name : toolAcceptsOtherModuleNames = [] := by decide +kernel

/-- one import module name everywhere, and it is `shopify_function_v<major>` of provider and trampoline -/
theorem C15_module_name :
    moduleNamesWat = [moduleNameHeader] ∧ moduleNameHeaderImports = [moduleNameHeader] ∧
    moduleNameRustExtern = moduleNameHeader ∧ moduleNameProvider = moduleNameHeader ∧
    moduleNameTrampoline = moduleNameHeader := by decide +kernel

/-- README type tags = core `Tag` discriminants -/
theorem C15_readme_tags : readmeTags = Tag_table := by decide +kernel

/-- README error codes = core `ErrorCode` discriminants (the catch-all `Unknown` is not a documented code) -/
theorem C15_readme_error_codes :
    readmeErrorCodes = ErrorCode_table.filter (fun e => e.1 ≠ [85, 110, 107, 110, 111, 119, 110]) := by
  decide +kernel

/-- README write status numbers = core `WriteResult` discriminants, names equal except that the
    README calls status 0 "Success" and the code calls it "Ok" -/
theorem C15_readme_write_status :
    readmeWriteStatus.map (·.2) = WriteResult_table.map (·.2) ∧
    (readmeWriteStatus.drop 1).map (·.1) = (WriteResult_table.drop 1).map (·.1) ∧
    (readmeWriteStatus.head?.map (·.2)) = some WriteResult_Ok := by decide +kernel

/-- the header's two status constants are the code's `Ok` and `IoError` -/
theorem C15_header_defines :
    headerDefines = [([87, 82, 73, 84, 69, 95, 82, 69, 83, 85, 76, 84, 95, 69, 82, 82, 79, 82], WriteResult_IoError),
                     ([87, 82, 73, 84, 69, 95, 82, 69, 83, 85, 76, 84, 95, 79, 75], WriteResult_Ok)] := by
  decide +kernel

/-- the api crate reports every provider status under the name it has in the code table: its
    status-to-error match has one arm per `WriteResult` variant, in the order of the numbers, `Ok` is
    success, every other status becomes the `Error` variant of the same name, and a number outside the
    table becomes `Unknown` -/
theorem C15_api_status_names :
    apiWriteStatusMap.map (·.1) = WriteResult_table.map (·.1) ∧
    (∀ p ∈ apiWriteStatusMap, p.2 = p.1) ∧
    apiWriteStatusUnknown = [85, 110, 107, 110, 111, 119, 110] := by decide +kernel

/-- non-vacuity: the tables are not empty (19 functions, 20 emitted imports) -/
example : abiWat.length = 19 ∧ trampolineEmits.length = 20 ∧ providerExports.length ≥ 20 := by decide +kernel

end SfVerif.Props.C15
