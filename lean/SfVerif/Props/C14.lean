import SfVerif.Model.Proto
import SfVerif.Lemmas.Sched
import SfVerif.Gen.Structure
/-! C14 — concurrent invocations on different threads do not interfere.
    Steps are provider-level (a destination / plan request and the copy that follows it are
    separate steps), so an interleaving may fall between them. -/
namespace SfVerif.Props.C14
open SfVerif SfVerif.Gen

/-- **C14**: under every interleaving of any number of threads' scripts, every thread observes
    exactly what it observes running alone (all schedules, all script lengths — no bound). -/
theorem C14_noninterference (w : Nat) (sched : Sys.Sched) (t : Nat) :
    obs t (Sys.runSched w {} sched).2 = (Thread.run w {} (script t sched)).2 := by
  have h := (noninterference_from w t sched {}).1
  simpa [Sys.get] using h

/-- … and not only what it observes: the *state* every thread ends in — input view, output, write
    position, log ring, interner, pending destinations and plans — is the state of its own script
    run alone, so nothing another thread did can show up in any later operation either -/
theorem C14_state_noninterference (w : Nat) (sched : Sys.Sched) (t : Nat) :
    (Sys.runSched w {} sched).1.get t = (Thread.run w {} (script t sched)).1 := by
  have h := (noninterference_from w t sched {}).2
  simpa [Sys.get] using h

/-- the same from any point of a run: continuing any reachable system with any further schedule,
    each thread continues as it would alone from where it stood -/
theorem C14_noninterference_from_any_point (w : Nat) (s : Sys) (sched : Sys.Sched) (t : Nat) :
    obs t (Sys.runSched w s sched).2 = (Thread.run w (s.get t) (script t sched)).2 ∧
    (Sys.runSched w s sched).1.get t = (Thread.run w (s.get t) (script t sched)).1 :=
  noninterference_from w t sched s

/-- the model keeps every piece of mutable state per thread; this is justified by the regenerated
    inventory of the crates' global items: every one compiled natively is `thread_local!` (kind 0)
    or immutable (kind 3) -/
theorem C14_all_state_thread_local :
    ∀ g ∈ globals, g.2.2.1 = 0 ∨ g.2.2.1 = 3 := by decide +kernel

/-- non-vacuity: a schedule that falls between a plan request and its copy -/
example : script 0 [(0, Op.logreq 3), (1, Op.logreq 5), (0, Op.logcopy 3 1)] = [Op.logreq 3, Op.logcopy 3 1] := by
  rfl

end SfVerif.Props.C14
