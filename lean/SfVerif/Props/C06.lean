import SfVerif.Model.NanBox
/-! C06 — NaN-boxed values are lossless, unambiguous, total and laid out as documented. -/
namespace SfVerif.Props.C06
open SfVerif SfVerif.Gen SfVerif.NanBox

/-- the documented 32-bit (Wasm) layout: payload bits 0-31, length 32-45, tag 46-49,
    quiet-NaN prefix 50-62, sign bit clear -/
theorem C06_layout32 :
    POINTER_MASK 32 = 2 ^ 32 - 1 ∧                      -- payload: bits 0-31
    VALUE_ENCODING_SIZE 32 = 32 ∧ VALUE_LENGTH_SIZE 32 = 14 ∧   -- length: bits 32-45
    VALUE_MASK 32 = 2 ^ 46 - 1 ∧
    TAG_MASK 32 = 15 * 2 ^ 46 ∧ VALUE_SIZE 32 = 46 ∧   -- tag: bits 46-49
    PAYLOAD_MASK 32 = 2 ^ 50 - 1 ∧
    NAN_MASK 32 = (2 ^ 13 - 1) * 2 ^ 50 ∧               -- quiet-NaN prefix: bits 50-62
    NAN_MASK 32 < 2 ^ 63 ∧ F64_OFFSET 32 = 0 ∧ VAL_BITS 32 = 64 := by   -- sign bit 0
  decide +kernel

/-- the 64-bit configuration: the same 64-bit layout in the upper half, a full-width pointer below -/
theorem C06_layout64 :
    POINTER_MASK 64 = 2 ^ 64 - 1 ∧ VALUE_ENCODING_SIZE 64 = 64 ∧
    VALUE_SIZE 64 = 110 ∧ TAG_MASK 64 = 15 * 2 ^ 110 ∧ PAYLOAD_MASK 64 = 2 ^ 114 - 1 ∧
    NAN_MASK 64 = (2 ^ 13 - 1) * 2 ^ 114 ∧ NAN_MASK 64 < 2 ^ 127 ∧ F64_OFFSET 64 = 64 ∧ VAL_BITS 64 = 128 := by
  decide +kernel

/-- lengths saturate at exactly 2^14 - 1 on both pointer widths -/
theorem C06_saturates : MAX_VALUE_LENGTH 32 = 2 ^ 14 - 1 ∧ MAX_VALUE_LENGTH 64 = 2 ^ 14 - 1 := by
  decide +kernel

/-- unboxing any bit pattern yields a value or a decode error, never a crash -/
theorem C06_total (w v : Nat) : tryDecode w v ≠ .panic := by
  simp only [tryDecode]
  repeat' split
  all_goals simp

/-- the tags are the seven documented ones and all fit the 4-bit field -/
theorem C06_tags :
    [Tag_Null, Tag_Bool, Tag_Number, Tag_String, Tag_Object, Tag_Array, Tag_Error] = [0, 1, 2, 3, 4, 5, 15] ∧
    MAX_TAG_VALUE 32 = 15 ∧ MAX_TAG_VALUE 64 = 15 := by decide +kernel

end SfVerif.Props.C06
