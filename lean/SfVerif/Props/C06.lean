import SfVerif.Model.NanBox
import SfVerif.Lemmas.Bits
import SfVerif.Lemmas.GenFnsNanBox
/-! C06 — NaN-boxed values are lossless, unambiguous, total and laid out as documented. -/
namespace SfVerif.Props.C06
open SfVerif SfVerif.Gen SfVerif.NanBox

/-- the documented 32-bit (Wasm) layout: payload bits 0-31, length 32-45, tag 46-49,
    quiet-NaN prefix 50-62, sign bit clear -/
theorem C06_layout32 :
    POINTER_MASK 32 = 2 ^ 32 - 1 ∧                      -- payload: bits 0-31
    VALUE_ENCODING_SIZE 32 = 32 ∧ VALUE_LENGTH_SIZE 32 = 14 ∧   -- length: bits 32-45
    VALUE_MASK 32 = 2 ^ 46 - 1 ∧
    TAG_MASK 32 = 15 * 2 ^ 46 ∧ VALUE_SIZE 32 = 46 ∧   -- tag: bits 46-49
    PAYLOAD_MASK 32 = 2 ^ 50 - 1 ∧
    NAN_MASK 32 = (2 ^ 13 - 1) * 2 ^ 50 ∧               -- quiet-NaN prefix: bits 50-62
    NAN_MASK 32 < 2 ^ 63 ∧ F64_OFFSET 32 = 0 ∧ VAL_BITS 32 = 64 := by   -- sign bit 0
  decide +kernel

/-- the 64-bit configuration: the same 64-bit layout in the upper half, a full-width pointer below -/
theorem C06_layout64 :
    POINTER_MASK 64 = 2 ^ 64 - 1 ∧ VALUE_ENCODING_SIZE 64 = 64 ∧
    VALUE_SIZE 64 = 110 ∧ TAG_MASK 64 = 15 * 2 ^ 110 ∧ PAYLOAD_MASK 64 = 2 ^ 114 - 1 ∧
    NAN_MASK 64 = (2 ^ 13 - 1) * 2 ^ 114 ∧ NAN_MASK 64 < 2 ^ 127 ∧ F64_OFFSET 64 = 64 ∧ VAL_BITS 64 = 128 := by
  decide +kernel

/-- lengths saturate at exactly 2^14 - 1 on both pointer widths -/
theorem C06_saturates : MAX_VALUE_LENGTH 32 = 2 ^ 14 - 1 ∧ MAX_VALUE_LENGTH 64 = 2 ^ 14 - 1 := by
  decide +kernel

/-- unboxing any bit pattern yields a value or a decode error, never a crash -/
theorem C06_total (w v : Nat) : tryDecode w v ≠ .panic := by
  simp only [tryDecode]
  repeat' split
  all_goals simp

/-- the tags are the seven documented ones and all fit the 4-bit field -/
theorem C06_tags :
    [Tag_Null, Tag_Bool, Tag_Number, Tag_String, Tag_Object, Tag_Array, Tag_Error] = [0, 1, 2, 3, 4, 5, 15] ∧
    MAX_TAG_VALUE 32 = 15 ∧ MAX_TAG_VALUE 64 = 15 := by decide +kernel


/-! ### lossless round trips (all pointers, all lengths, both widths) -/

/-- what `try_decode` answers for a tag once the fields are known -/
def expect (t l p : Nat) : Decoded :=
  if t = 1 then .ok (.bool (p != 0))
  else if t = 0 then .ok .null
  else if t = 2 then .decodeError
  else if t = 5 then .ok (.array p l)
  else if t = 3 then .ok (.string p l)
  else if t = 4 then .ok (.object p l)
  else if t = 15 then .ok (.error (errorCodeOf p))
  else .decodeError

theorem decode_box32 (t l p : Nat) (ht : t < 16) (hl : l < 2 ^ 14) (hp : p < 2 ^ 32) :
    tryDecode 32 (8191 * 2 ^ 50 + t * 2 ^ 46 + l * 2 ^ 32 + p) = expect t l p := by
  obtain ⟨f1, f2, f3, f4, f5⟩ := Bits.fields32 t l p ht hl hp
  simp only [tryDecode, f1, f2, f3, f4, f5, ne_eq, not_true_eq_false, if_false, expect,
    tag_bool, tag_null, tag_number, tag_array, tag_string, tag_object, tag_error]

theorem decode_box64 (t l p : Nat) (ht : t < 16) (hl : l < 2 ^ 14) (hp : p < 2 ^ 64) :
    tryDecode 64 (8191 * 2 ^ 114 + t * 2 ^ 110 + l * 2 ^ 64 + p) = expect t l p := by
  obtain ⟨f1, f2, f3, f4, f5⟩ := Bits.fields64 t l p ht hl hp
  simp only [tryDecode, f1, f2, f3, f4, f5, ne_eq, not_true_eq_false, if_false, expect,
    tag_bool, tag_null, tag_number, tag_array, tag_string, tag_object, tag_error]

/-- **strings, arrays and objects survive boxing (32-bit): any pointer, any length; lengths up to
    2^14-1 are kept, larger ones read back as exactly 2^14-1** -/
theorem C06_roundtrip32 (ptr len : Nat) (hp : ptr < 2 ^ 32) :
    tryDecode 32 (string 32 ptr len) = .ok (.string ptr (min len (2 ^ 14 - 1))) ∧
    tryDecode 32 (obj 32 ptr len) = .ok (.object ptr (min len (2 ^ 14 - 1))) ∧
    tryDecode 32 (array 32 ptr len) = .ok (.array ptr (min len (2 ^ 14 - 1))) := by
  have hm : ptr % 2 ^ 32 = ptr := Nat.mod_eq_of_lt hp
  have hl : min len 16383 < 2 ^ 14 := by omega
  refine ⟨?_, ?_, ?_⟩
  · rw [string, tag_string, Bits.encode32_eq _ _ 3 (by omega), hm, decode_box32 3 _ ptr (by omega) hl hp]; rfl
  · rw [obj, tag_object, Bits.encode32_eq _ _ 4 (by omega), hm, decode_box32 4 _ ptr (by omega) hl hp]; rfl
  · rw [array, tag_array, Bits.encode32_eq _ _ 5 (by omega), hm, decode_box32 5 _ ptr (by omega) hl hp]; rfl

/-- the same on the 64-bit configuration -/
theorem C06_roundtrip64 (ptr len : Nat) (hp : ptr < 2 ^ 64) :
    tryDecode 64 (string 64 ptr len) = .ok (.string ptr (min len (2 ^ 14 - 1))) ∧
    tryDecode 64 (obj 64 ptr len) = .ok (.object ptr (min len (2 ^ 14 - 1))) ∧
    tryDecode 64 (array 64 ptr len) = .ok (.array ptr (min len (2 ^ 14 - 1))) := by
  have hm : ptr % 2 ^ 64 = ptr := Nat.mod_eq_of_lt hp
  have hl : min len 16383 < 2 ^ 14 := by omega
  refine ⟨?_, ?_, ?_⟩
  · rw [string, tag_string, Bits.encode64_eq _ _ 3 (by omega), hm, decode_box64 3 _ ptr (by omega) hl hp]; rfl
  · rw [obj, tag_object, Bits.encode64_eq _ _ 4 (by omega), hm, decode_box64 4 _ ptr (by omega) hl hp]; rfl
  · rw [array, tag_array, Bits.encode64_eq _ _ 5 (by omega), hm, decode_box64 5 _ ptr (by omega) hl hp]; rfl

/-- booleans, null and every error code survive boxing on both widths -/
theorem C06_roundtrip_small :
    (∀ b : Bool, tryDecode 32 (NanBox.bool 32 b) = .ok (.bool b) ∧ tryDecode 64 (NanBox.bool 64 b) = .ok (.bool b)) ∧
    tryDecode 32 (null 32) = .ok .null ∧ tryDecode 64 (null 64) = .ok .null ∧
    (∀ c, c ≤ 7 → tryDecode 32 (error 32 c) = .ok (.error c) ∧ tryDecode 64 (error 64 c) = .ok (.error c)) := by
  refine ⟨?_, by decide +kernel, by decide +kernel, by decide +kernel⟩
  intro b; cases b <;> decide +kernel

/-- **every non-NaN double survives bit for bit and is never taken for a boxed value** (both widths) -/
theorem C06_number_exact (bits : Nat) (hb : bits < 2 ^ 64) (hn : F64.isNaN bits = false) :
    (number 32 bits = some bits ∧ tryDecode 32 bits = .ok (.number bits)) ∧
    (number 64 bits = some (bits * 2 ^ 64) ∧ tryDecode 64 (bits * 2 ^ 64) = .ok (.number bits)) := by
  have hnan : ¬ (bits / 2 ^ 52 % 2048 = 2047 ∧ bits % 2 ^ 52 ≠ 0) := by
    simp [F64.isNaN, F64.expField, F64.manField] at hn
    intro h; exact h.2 (hn h.1)
  have h8191 : (8191 : Nat) = 2 ^ 13 - 1 := by decide
  obtain ⟨a1, _, _, _, _, _, _, a8⟩ := Bits.consts32
  obtain ⟨b1, _, _, _, _, _, _, b8⟩ := Bits.consts64
  refine ⟨⟨?_, ?_⟩, ⟨?_, ?_⟩⟩
  · simp [number, hn, a8]
  · have hne : bits &&& NAN_MASK 32 ≠ NAN_MASK 32 := by
      rw [a1, Bits.and_shl_mask, h8191, Nat.and_two_pow_sub_one_eq_mod, Nat.shiftRight_eq_div_pow,
        Nat.shiftLeft_eq, Nat.shiftLeft_eq]
      omega
    simp only [tryDecode, hne, ne_eq, not_false_eq_true, if_true, a8, Nat.shiftRight_zero]
    rw [Nat.mod_eq_of_lt hb]
  · simp [number, hn, b8, Nat.shiftLeft_eq]
  · have hne : (bits * 2 ^ 64) &&& NAN_MASK 64 ≠ NAN_MASK 64 := by
      rw [b1, Bits.and_shl_mask, h8191, Nat.and_two_pow_sub_one_eq_mod, Nat.shiftRight_eq_div_pow,
        Nat.shiftLeft_eq, Nat.shiftLeft_eq]
      omega
    simp only [tryDecode, hne, ne_eq, not_false_eq_true, if_true, b8, Nat.shiftRight_eq_div_pow]
    have : bits * 2 ^ 64 / 2 ^ 64 = bits := by omega
    rw [this, Nat.mod_eq_of_lt hb]

/-- the reverse: every box the encoder produces is a NaN when read as a double, with the sign
    bit clear (so it can never be mistaken for a number) -/
theorem C06_box_is_nan (ptr len tag : Nat) (ht : tag < 16) :
    F64.isNaN (NanBox.encode 32 ptr len tag) = true ∧ NanBox.encode 32 ptr len tag < 2 ^ 63 ∧
    F64.isNaN (NanBox.encode 64 ptr len tag / 2 ^ 64) = true ∧ NanBox.encode 64 ptr len tag < 2 ^ 127 := by
  rw [Bits.encode32_eq _ _ _ ht, Bits.encode64_eq _ _ _ ht]
  have hl : min len 16383 ≤ 16383 := Nat.min_le_right _ _
  have hp : ptr % 2 ^ 32 < 2 ^ 32 := Nat.mod_lt _ (by decide)
  have hq : ptr % 2 ^ 64 < 2 ^ 64 := Nat.mod_lt _ (by decide)
  simp only [F64.isNaN, F64.expField, F64.manField, Bool.and_eq_true, beq_iff_eq, bne_iff_ne, ne_eq]
  refine ⟨⟨by omega, by omega⟩, by omega, ⟨by omega, by omega⟩, by omega⟩

/-- non-vacuity: a concrete 20000-byte string handle on the 32-bit layout -/
example : tryDecode 32 (string 32 0x1234 20000) = .ok (.string 0x1234 16383) := by
  have := (C06_roundtrip32 0x1234 20000 (by decide)).1; simpa using this

/-- **tie by translation**: the model's `encode`, `number` and `tryDecode` are equal to the
    definitions regenerated from the bodies of `NanBox::encode` / `NanBox::number` /
    `NanBox::try_decode` (+ `NanBox::tag`, both pointer-width variants of the `cfg` pair) in
    core/src/read.rs, for every bit pattern a `Val` can hold -/
theorem C06_model_is_the_source_text (w ptr len tag bits v : Nat) :
    nanbox_encode w ptr len tag = NanBox.encode w ptr len tag ∧
    (F64.isNaN bits = false → NanBox.number w bits = some (nanbox_number w bits)) ∧
    ((w = 32 → v < 2 ^ 64) → nanbox_try_decode w v = NanBox.tryDecode w v) :=
  ⟨gen_encode_eq w ptr len tag, gen_number_eq w bits, gen_try_decode_eq w v⟩

end SfVerif.Props.C06
