import SfVerif.Model.Proto
import SfVerif.Gen.Structure
import SfVerif.Lemmas.Intern4
import SfVerif.Lemmas.Sched
/-! C13 — each invocation starts from a clean slate. -/
namespace SfVerif.Props.C13
open SfVerif SfVerif.Gen

/-- what deliberately survives a new invocation on a thread: the interner (with a pending
    intern destination) and the api crate's id cache -/
def survivors (t : Thread) : Interner × Option (Nat × Nat) × List (Bytes × Nat) :=
  (t.ctx.interner, t.lastIntern, t.cache)

/-- starting an invocation rebuilds the whole context from the input bytes; input, roots, output,
    write position, parent stack and logs are those of a fresh context whatever came before -/
theorem C13_reset (w : Nat) (t : Thread) (b : Bytes) :
    (t.step w (.init b)).1 =
      { ctx := { input := b, roots := #[], writer := {}, logs := Logs.init LOG_CAPACITY,
                 interner := t.ctx.interner },
        handles := #[], lastAlloc := none, logArea := none,
        lastIntern := t.lastIntern, cache := t.cache } := rfl

/-- two threads that agree on what survives are in the same state after `init b`, whatever
    their earlier invocations read, wrote (completely, partially, erroneously) or logged -/
theorem C13_clean_slate (w : Nat) (t1 t2 : Thread) (b : Bytes) (h : survivors t1 = survivors t2) :
    (t1.step w (.init b)).1 = (t2.step w (.init b)).1 := by
  simp only [survivors, Prod.mk.injEq] at h
  rw [C13_reset, C13_reset, h.1, h.2.1, h.2.2]

/-- hence everything observable in the new invocation — every answer to every later operation,
    and the resulting state — is the same (all histories before, all histories after) -/
theorem C13_new_invocation_independent_of_history (w : Nat) (t1 t2 : Thread) (b : Bytes)
    (h : survivors t1 = survivors t2) (ops : List Op) :
    Thread.run w (t1.step w (.init b)).1 ops = Thread.run w (t2.step w (.init b)).1 ops := by
  rw [C13_clean_slate w t1 t2 b h]

/-- in particular: after any history on a thread that interned nothing, a new invocation behaves
    exactly as on a fresh thread -/
theorem C13_like_fresh_thread (w : Nat) (t : Thread) (b : Bytes)
    (h : survivors t = survivors {}) (ops : List Op) :
    Thread.run w (t.step w (.init b)).1 ops = Thread.run w (({} : Thread).step w (.init b)).1 ops :=
  C13_new_invocation_independent_of_history w t {} b h ops

/-- the operations that intern (all four forms) -/
def interns : Op → Bool
  | .intern _ | .internreq _ | .interncopy _ | .cached _ => true
  | _ => false

theorem istep_noop (st : IState) (op : Op) (h : interns op = false) : st.step op = st := by
  cases op <;> first | rfl | simp [interns] at h

theorem run_survivors (w : Nat) : ∀ (pre : List Op) (t : Thread), (∀ op ∈ pre, interns op = false) →
    (Thread.run w t pre).1.istate = t.istate := by
  intro pre
  induction pre with
  | nil => intro t _; rfl
  | cons op rest ih =>
    intro t h
    show (Thread.run w (t.step w op).1 rest).1.istate = _
    rw [ih _ (fun o ho => h o (List.mem_cons_of_mem _ ho)), Thread.step_istate,
      istep_noop _ _ (h op List.mem_cons_self)]

/-- **C13, every history that interns nothing**: after ANY history of protocol operations that
    contains no interning operation — reads, writes finished, abandoned mid-container or rejected,
    logs, typed (de)serialisation, earlier invocations — a new invocation behaves in every answer
    and in its resulting state exactly as on a fresh thread (the hypothesis of
    `C13_like_fresh_thread` discharged for the whole class, not by example) -/
theorem C13_every_history_like_fresh_thread (w : Nat) (pre : List Op) (hp : ∀ op ∈ pre, interns op = false)
    (b : Bytes) (ops : List Op) :
    Thread.run w ((Thread.run w {} pre).1.step w (.init b)).1 ops =
      Thread.run w (({} : Thread).step w (.init b)).1 ops := by
  apply C13_like_fresh_thread
  have h := run_survivors w pre {} hp
  simp only [Thread.istate, IState.mk.injEq] at h
  simp only [survivors, Prod.mk.injEq]
  exact h



theorem run_istate' (w : Nat) : ∀ (ops : List Op) (t : Thread),
    (Thread.run w t ops).1.istate = t.istate.run ops := by
  intro ops
  induction ops with
  | nil => intro t; rfl
  | cons op rest ih =>
    intro t
    show (Thread.run w (t.step w op).1 rest).1.istate = (t.istate.step op).run rest
    rw [ih, Thread.step_istate w t op]

theorem irun_filter : ∀ (pre : List Op) (st : IState), st.run pre = st.run (pre.filter interns) := by
  intro pre
  induction pre with
  | nil => intro st; rfl
  | cons op rest ih =>
    intro st
    by_cases h : interns op = true
    · rw [List.filter_cons_of_pos h]
      show (st.step op).run rest = (st.step op).run _
      exact ih _
    · have h' : interns op = false := by simpa using h
      rw [List.filter_cons_of_neg h]
      show (st.step op).run rest = _
      rw [istep_noop _ _ h']
      exact ih _

/-- **C13, every history whatever**: a new invocation after any history behaves, in every answer
    to every later operation and in its resulting state, exactly as after the history's interning
    operations alone — everything else the earlier invocations read, wrote or logged is gone;
    only interned ids deliberately survive -/
theorem C13_only_interning_survives (w : Nat) (pre : List Op) (b : Bytes) (ops : List Op) :
    Thread.run w ((Thread.run w {} pre).1.step w (.init b)).1 ops =
      Thread.run w ((Thread.run w {} (pre.filter interns)).1.step w (.init b)).1 ops := by
  apply C13_new_invocation_independent_of_history
  have h1 := run_istate' w pre {}
  have h2 := run_istate' w (pre.filter interns) {}
  rw [irun_filter] at h1
  rw [← h2] at h1
  simp only [Thread.istate, IState.mk.injEq] at h1
  simp only [survivors, Prod.mk.injEq]
  exact h1

/-- non-vacuity: what is kept of a mixed history -/
example : [Op.log 3 1, .intern #[1], .w false (.arr 2), .cached #[2], .root].filter interns = [.intern #[1], .cached #[2]] := by
  rfl

/-- **C13 under every interleaving of any number of threads**: a new invocation on thread `t`
    after any schedule behaves, in every later answer and in its state, exactly as on a thread
    that performed only the interning operations of `t`'s own script — nothing any thread read,
    wrote or logged before, this one or another, can be observed in it -/
theorem C13_every_schedule (w : Nat) (sched : Sys.Sched) (t : Nat) (b : Bytes) (ops : List Op) :
    Thread.run w (((Sys.runSched w {} sched).1.get t).step w (.init b)).1 ops =
      Thread.run w ((Thread.run w {} ((SfVerif.Props.C14.script t sched).filter interns)).1.step w (.init b)).1 ops := by
  have h := (SfVerif.Props.C14.noninterference_from w t sched {}).2
  have h0 : ({} : Sys).get t = {} := by simp [Sys.get]
  rw [h, h0]
  exact C13_only_interning_survives w _ b ops

/-- regenerated obligation: both (re)initialisers replace the whole context by a freshly
    constructed one; natively exactly the interner is carried over, on Wasm nothing is, and the
    constructor takes only the input bytes (everything else is `Default`); neither initialiser contains a
    branch, an early exit or a loop, so the replacement is unconditional -/
theorem C13_initialisers_rebuild_everything :
    nativeInitReplacesWhole = true ∧ nativeInitInPlace = [] ∧ nativeInitAssignedAfter = [] ∧
    nativeInitCarried = [[115, 116, 114, 105, 110, 103, 95, 105, 110, 116, 101, 114, 110, 101, 114]] ∧
    wasmInitReplacesWhole = true ∧ wasmInitInPlace = [] ∧ wasmInitCarried = [] ∧
    wasmInitAssignedAfter = [[105, 110, 112, 117, 116, 95, 98, 121, 116, 101, 115]] ∧
    contextNewSets = [[105, 110, 112, 117, 116, 95, 98, 121, 116, 101, 115]] ∧
    contextNewRestDefault = true ∧
    nativeInitHasBranches = false ∧ wasmInitHasBranches = false := by decide +kernel

/-- the model's context has a component for every field of `provider::Context` -/
theorem C13_context_fields :
    contextFields.length = 7 := by decide +kernel

/-- non-vacuity: a thread with an unfinished write, logs and parsed input agrees with a fresh one on the survivors -/
example : survivors ((({} : Thread).step 64 (.w false (.arr 2))).1.step 64 (.log 5 1)).1 = survivors {} := by
  rfl

end SfVerif.Props.C13
