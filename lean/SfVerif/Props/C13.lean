import SfVerif.Model.Proto
import SfVerif.Gen.Structure
/-! C13 — each invocation starts from a clean slate. -/
namespace SfVerif.Props.C13
open SfVerif SfVerif.Gen

/-- what deliberately survives a new invocation on a thread: the interner (with a pending
    intern destination) and the api crate's id cache -/
def survivors (t : Thread) : Interner × Option (Nat × Nat) × List (Bytes × Nat) :=
  (t.ctx.interner, t.lastIntern, t.cache)

/-- starting an invocation rebuilds the whole context from the input bytes; input, roots, output,
    write position, parent stack and logs are those of a fresh context whatever came before -/
theorem C13_reset (w : Nat) (t : Thread) (b : Bytes) :
    (t.step w (.init b)).1 =
      { ctx := { input := b, roots := #[], writer := {}, logs := Logs.init LOG_CAPACITY,
                 interner := t.ctx.interner },
        handles := #[], lastAlloc := none, logArea := none,
        lastIntern := t.lastIntern, cache := t.cache } := rfl

/-- two threads that agree on what survives are in the same state after `init b`, whatever
    their earlier invocations read, wrote (completely, partially, erroneously) or logged -/
theorem C13_clean_slate (w : Nat) (t1 t2 : Thread) (b : Bytes) (h : survivors t1 = survivors t2) :
    (t1.step w (.init b)).1 = (t2.step w (.init b)).1 := by
  simp only [survivors, Prod.mk.injEq] at h
  rw [C13_reset, C13_reset, h.1, h.2.1, h.2.2]

/-- hence everything observable in the new invocation — every answer to every later operation,
    and the resulting state — is the same (all histories before, all histories after) -/
theorem C13_new_invocation_independent_of_history (w : Nat) (t1 t2 : Thread) (b : Bytes)
    (h : survivors t1 = survivors t2) (ops : List Op) :
    Thread.run w (t1.step w (.init b)).1 ops = Thread.run w (t2.step w (.init b)).1 ops := by
  rw [C13_clean_slate w t1 t2 b h]

/-- in particular: after any history on a thread that interned nothing, a new invocation behaves
    exactly as on a fresh thread -/
theorem C13_like_fresh_thread (w : Nat) (t : Thread) (b : Bytes)
    (h : survivors t = survivors {}) (ops : List Op) :
    Thread.run w (t.step w (.init b)).1 ops = Thread.run w (({} : Thread).step w (.init b)).1 ops :=
  C13_new_invocation_independent_of_history w t {} b h ops

/-- regenerated obligation: both (re)initialisers replace the whole context by a freshly
    constructed one; natively exactly the interner is carried over, on Wasm nothing is, and the
    constructor takes only the input bytes (everything else is `Default`); neither initialiser contains a
    branch, an early exit or a loop, so the replacement is unconditional -/
theorem C13_initialisers_rebuild_everything :
    nativeInitReplacesWhole = true ∧ nativeInitInPlace = [] ∧ nativeInitAssignedAfter = [] ∧
    nativeInitCarried = [[115, 116, 114, 105, 110, 103, 95, 105, 110, 116, 101, 114, 110, 101, 114]] ∧
    wasmInitReplacesWhole = true ∧ wasmInitInPlace = [] ∧ wasmInitCarried = [] ∧
    wasmInitAssignedAfter = [[105, 110, 112, 117, 116, 95, 98, 121, 116, 101, 115]] ∧
    contextNewSets = [[105, 110, 112, 117, 116, 95, 98, 121, 116, 101, 115]] ∧
    contextNewRestDefault = true ∧
    nativeInitHasBranches = false ∧ wasmInitHasBranches = false := by decide +kernel

/-- the model's context has a component for every field of `provider::Context` -/
theorem C13_context_fields :
    contextFields.length = 7 := by decide +kernel

/-- non-vacuity: a thread with an unfinished write, logs and parsed input agrees with a fresh one on the survivors -/
example : survivors ((({} : Thread).step 64 (.w false (.arr 2))).1.step 64 (.log 5 1)).1 = survivors {} := by
  rfl

end SfVerif.Props.C13
