import SfVerif.Lemmas.Ring2
import SfVerif.Lemmas.Ring3
import SfVerif.Gen.Consts
import SfVerif.Lemmas.GenFnsLogs
import SfVerif.Lemmas.Frame2
import SfVerif.Lemmas.Frame4
import SfVerif.Lemmas.Sched
import SfVerif.Gen.WasmFinalize
/-! C05 — the host reads back the most recent log bytes, in order, at any moment. -/
namespace SfVerif.Props.C05
open SfVerif SfVerif.Gen SfVerif.Ring

/-- **C05 (every capacity, every history, every read point)**: after any sequence of log
    messages of any lengths, the two segments exposed to the host, concatenated, are exactly the
    last `min(total, capacity)` bytes of everything logged so far, in order. Every prefix of a
    history is itself a history, so this is the statement at every moment — including the moment
    a guest traps. -/
theorem C05_read_is_tail_generic (cap : Nat) (hc : 0 < cap) (msgs : List (List UInt8)) :
    Logs.read cap (msgs.foldl (Logs.log cap) (Logs.init cap)) = lastN cap msgs.flatten :=
  (read_is_tail cap hc msgs).2

/-- the same at the capacity extracted from provider/src/log.rs -/
theorem C05_read_is_tail (msgs : List (List UInt8)) :
    Logs.read LOG_CAPACITY (msgs.foldl (Logs.log LOG_CAPACITY) (Logs.init LOG_CAPACITY)) =
      lastN LOG_CAPACITY msgs.flatten :=
  C05_read_is_tail_generic LOG_CAPACITY (by decide) msgs

/-- `lastN cap xs` really is the last `min(total, cap)` bytes -/
theorem C05_tail_length (cap : Nat) (xs : List UInt8) :
    (lastN cap xs).length = min cap xs.length ∧ ∃ pre, xs = pre ++ lastN cap xs := by
  refine ⟨lastN_length cap xs, xs.take (xs.length - cap), ?_⟩
  simp [lastN]

/-- **every copy plan** (bytes to skip, up to two destination segments) covers exactly the
    retained tail of the message and lies inside the log buffer; the two segments do not overlap -/
theorem C05_plan_sound (cap : Nat) (l : Logs) (n : Nat) (h : Ring.Inv cap l) :
    let p := (Logs.append cap l n).2
    p.src + p.len1 + p.len2 = n ∧ p.len1 + p.len2 = min n cap ∧
    p.dst1 + p.len1 ≤ cap ∧
    ((p.dst2 = none ∧ p.len2 = 0) ∨ (p.dst2 = some 0 ∧ p.len2 ≤ p.dst1 ∧ p.dst1 + p.len1 = cap)) := by
  obtain ⟨_, _, _, h4⟩ := append_spec cap l n h
  obtain ⟨hc, hb, ho, hl, hlo⟩ := h
  show ((Logs.append cap l n).2.src + (Logs.append cap l n).2.len1 + (Logs.append cap l n).2.len2 = n ∧ _)
  rw [h4]
  have hmn : min n cap ≤ cap := Nat.min_le_right _ _
  have hmm : min n cap ≤ n := Nat.min_le_left _ _
  by_cases hfit : min n cap ≤ cap - l.offset
  · rw [if_pos hfit]
    simp only []
    refine ⟨by omega, by omega, by omega, by simp⟩
  · rw [if_neg hfit]
    simp only []
    refine ⟨by omega, by omega, by omega, ?_⟩
    simp; omega

/-- the ring invariant holds in every reachable state -/
theorem C05_invariant (msgs : List (List UInt8)) :
    Ring.Inv LOG_CAPACITY (msgs.foldl (Logs.log LOG_CAPACITY) (Logs.init LOG_CAPACITY)) :=
  (read_is_tail LOG_CAPACITY (by decide) msgs).1

/-- non-vacuity: a small ring, three messages, the middle one longer than the ring -/
example : Logs.read 4 ([[1, 2, 3], [4, 5, 6, 7, 8, 9], [10]].foldl (Logs.log 4) (Logs.init 4)) = [7, 8, 9, 10] := by
  decide

/-- **tie by translation**: the model's `append` and `readPtrs` are equal to the definitions
    regenerated from the bodies of `Logs::append` / `Logs::read_ptrs` in provider/src/log.rs -/
theorem C05_model_is_the_source_text (l : Logs) (n : Nat) (hoff : l.offset ≤ LOG_CAPACITY) :
    (let r := log_append l.offset l.len n
     let m := Logs.append LOG_CAPACITY l n
     m.1.offset = r.2.1 ∧ m.1.len = r.2.2 ∧ m.1.buf = l.buf ∧
     m.2.src = r.1.1 ∧ some m.2.dst1 = r.1.2.1 ∧ m.2.len1 = r.1.2.2.1 ∧ m.2.dst2 = r.1.2.2.2.1 ∧ m.2.len2 = r.1.2.2.2.2) ∧
    (let r := log_read_ptrs l.offset l.len
     let m := Logs.readPtrs LOG_CAPACITY l
     some m.1 = r.1 ∧ m.2.1 = r.2.1 ∧ m.2.2.1 = r.2.2.1 ∧ m.2.2.2 = r.2.2.2) :=
  ⟨gen_append_eq l n hoff, gen_read_ptrs_eq l⟩

/-- the messages logged since the invocation started, after one more operation -/
def msgsStep (ms : List (List UInt8)) : Op → List (List UInt8)
  | .init _ | .deint _ _ | .de _ _ | .serrt _ _ => []
  | .log len seed => ms ++ [(msgBytes len seed).toList]
  | _ => ms

/-- … after a history -/
def msgsSince (ms : List (List UInt8)) : List Op → List (List UInt8)
  | [] => ms
  | op :: rest => msgsSince (msgsStep ms op) rest

theorem logsAfter_fold (ms : List (List UInt8)) (op : Op) :
    logsAfter (ms.foldl (Logs.log LOG_CAPACITY) (Logs.init LOG_CAPACITY)) op =
      (msgsStep ms op).foldl (Logs.log LOG_CAPACITY) (Logs.init LOG_CAPACITY) := by
  cases op <;> simp [logsAfter, msgsStep, List.foldl_append]

theorem logs_run (w : Nat) : ∀ (ops : List Op), (∀ op ∈ ops, op.splitLog = false) →
    ∀ (t : Thread) (ms : List (List UInt8)),
      t.ctx.logs = ms.foldl (Logs.log LOG_CAPACITY) (Logs.init LOG_CAPACITY) →
      (Thread.run w t ops).1.ctx.logs =
        (msgsSince ms ops).foldl (Logs.log LOG_CAPACITY) (Logs.init LOG_CAPACITY) := by
  intro ops
  induction ops with
  | nil => intro _ t ms h; exact h
  | cons op rest ih =>
    intro hs t ms h
    simp only [Thread.run, msgsSince]
    apply ih (fun o ho => hs o (List.mem_cons_of_mem _ ho))
    rw [Thread.step_logs w t op (hs op List.mem_cons_self), h, logsAfter_fold]

/-- **C05 at the level of a whole thread, every history**: at any moment of any history of protocol
    operations on a thread — reads, writes, interning, typed (de)serialisation, new invocations, log
    calls of any lengths in between — what the host reads back is exactly the last
    `min(total, capacity)` bytes logged since the current invocation started (log calls issued as
    one call; the split request / copy form is covered by `C05_plan_sound` and, across threads, C14). -/
theorem C05_every_history (w : Nat) (ops : List Op) (hs : ∀ op ∈ ops, op.splitLog = false) :
    Logs.read LOG_CAPACITY (Thread.run w {} ops).1.ctx.logs = lastN LOG_CAPACITY (msgsSince [] ops).flatten := by
  have h := logs_run w ops hs {} [] rfl
  rw [h]
  exact C05_read_is_tail _

/-- non-vacuity: a read between two log calls, a new invocation, one more log call -/
example : msgsSince [] [.log 3 1, .root, .log 2 5, .init #[0xc0], .log 1 9] = [(msgBytes 1 9).toList] := by
  rfl

/-- **request then copy is one log call**: from any thread state whatever, the provider's
    plan request for an `n`-byte message followed by the copy of that message along the plan
    (what the native glue and the trampoline do) leaves exactly the state of the one-call form -/
theorem C05_split_call_is_one_call (w : Nat) (t : Thread) (n seed : Nat) :
    (((t.step w (.logreq n)).1).step w (.logcopy n seed)).1 = (t.step w (.log n seed)).1 :=
  Thread.split_pair_state w t n seed

/-- **C05 at the level of a whole thread, log calls in either form**: the same statement as
    `C05_every_history` for histories in which a log call may also arrive split in two (plan
    request, then the copy of a message of the requested length), in any mixture with one-call
    logs and every other protocol operation. `fuseLogs` only renames each adjacent
    request/copy pair to the one call it is. What stays outside: a plan request whose copy never
    comes or comes later (a trap between the two halves; a stale plan) — there the reserved
    bytes are not yet the message's, on the real ring as in the model; plans themselves are
    `C05_plan_sound`, the interleaving across threads is C14. -/
theorem C05_every_history_either_form (w : Nat) (ops : List Op)
    (hs : ∀ op ∈ fuseLogs ops, op.splitLog = false) :
    Logs.read LOG_CAPACITY (Thread.run w {} ops).1.ctx.logs =
      lastN LOG_CAPACITY (msgsSince [] (fuseLogs ops)).flatten := by
  rw [← Thread.run_fuse]
  exact C05_every_history w _ hs

/-- non-vacuity: a split call, a read, a one-call log, a new invocation, another split call -/
example : (∀ op ∈ fuseLogs [.logreq 3, .logcopy 3 1, .root, .log 2 5, .init #[0xc0], .logreq 1, .logcopy 1 9],
      op.splitLog = false) ∧
    msgsSince [] (fuseLogs [.logreq 3, .logcopy 3 1, .root, .log 2 5, .init #[0xc0], .logreq 1, .logcopy 1 9]) =
      [(msgBytes 1 9).toList] := by
  refine ⟨?_, rfl⟩
  intro op h
  simp [fuseLogs] at h
  rcases h with h | h | h | h | h <;> subst h <;> rfl

/-- **a trap between the two halves of a log call** (the crash point the either-form theorem leaves
    out): after any history of messages, a plan request for `n` bytes whose copy never happens
    leaves the host reading the last `min(total + n, capacity)` bytes of everything logged so far
    followed by the `n` bytes that already lay where the plan points (`reserved`, length `n`) —
    every earlier byte still in order and evicted only as `n` more bytes would evict it; nothing
    is reordered or torn, only the reserved slot is not yet the message's. -/
theorem C05_trap_between_request_and_copy (msgs : List (List UInt8)) (n : Nat) :
    let l := msgs.foldl (Logs.log LOG_CAPACITY) (Logs.init LOG_CAPACITY)
    Logs.read LOG_CAPACITY (Logs.append LOG_CAPACITY l n).1 =
        lastN LOG_CAPACITY (msgs.flatten ++ reserved LOG_CAPACITY l n) ∧
      (reserved LOG_CAPACITY l n).length = n := by
  intro l
  refine ⟨?_, reserved_length _ _ _⟩
  rw [read_after_request LOG_CAPACITY l n (C05_invariant msgs), C05_read_is_tail, lastN_lastN_append]

theorem run_snoc (w : Nat) : ∀ (ops : List Op) (t : Thread) (op : Op),
    (Thread.run w t (ops ++ [op])).1 = ((Thread.run w t ops).1.step w op).1 := by
  intro ops
  induction ops with
  | nil => intro t op; rfl
  | cons o rest ih => intro t op; exact ih _ op

/-- **the crash point between the halves, at the level of a whole thread**: after any history of
    protocol operations (log calls in either form, everything else in between), a plan request
    whose copy never happens leaves the host reading the tail of everything logged in this
    invocation followed by the `n` bytes already lying where the plan points -/
theorem C05_trap_every_history (w : Nat) (ops : List Op) (n : Nat)
    (hs : ∀ op ∈ fuseLogs ops, op.splitLog = false) :
    let before := (Thread.run w {} ops).1.ctx.logs
    Logs.read LOG_CAPACITY (Thread.run w {} (ops ++ [.logreq n])).1.ctx.logs =
        lastN LOG_CAPACITY ((msgsSince [] (fuseLogs ops)).flatten ++ reserved LOG_CAPACITY before n) ∧
      (reserved LOG_CAPACITY before n).length = n := by
  intro before
  have hb : before = (msgsSince [] (fuseLogs ops)).foldl (Logs.log LOG_CAPACITY) (Logs.init LOG_CAPACITY) := by
    show (Thread.run w {} ops).1.ctx.logs = _
    rw [← Thread.run_fuse]
    exact logs_run w _ hs {} [] rfl
  have h := C05_trap_between_request_and_copy (msgsSince [] (fuseLogs ops)) n
  simp only [] at h
  rw [← hb] at h
  rw [run_snoc]
  exact h

/-- non-vacuity of the hypothesis -/
example : (∀ op ∈ fuseLogs [.log 3 1, .root, .logreq 2, .logcopy 2 5], op.splitLog = false) := by
  intro op h
  simp [fuseLogs] at h
  rcases h with h | h | h <;> subst h <;> rfl

/-- **C05 under every interleaving of any number of threads**: whatever the other threads do and
    wherever their steps fall — also between this thread's plan request and its copy — the host
    reads back, for each thread, the tail of what *that thread* logged in its current invocation
    (log calls in either form; pairing is judged on the thread's own script, not on the global
    schedule). Uses the schedule theorem behind C14 (`Lemmas/Sched`). -/
theorem C05_logs_stay_per_thread (w : Nat) (sched : Sys.Sched) (t : Nat)
    (hs : ∀ op ∈ fuseLogs (SfVerif.Props.C14.script t sched), op.splitLog = false) :
    Logs.read LOG_CAPACITY ((Sys.runSched w {} sched).1.get t).ctx.logs =
      lastN LOG_CAPACITY (msgsSince [] (fuseLogs (SfVerif.Props.C14.script t sched))).flatten := by
  have h := (SfVerif.Props.C14.noninterference_from w t sched {}).2
  have h0 : ({} : Sys).get t = {} := by simp [Sys.get]
  rw [h, h0]
  exact C05_every_history_either_form w _ hs

/-- non-vacuity: another thread's request and copy fall between this thread's request and copy -/
example : fuseLogs (SfVerif.Props.C14.script 0
    [(0, Op.logreq 3), (1, Op.logreq 5), (1, Op.logcopy 5 2), (0, Op.logcopy 3 1)]) = [Op.log 3 1] := by
  rfl

/-- the wasm-only `finalize` export (not compiled natively; regenerated from provider/src/lib.rs) hands
    the host six words: the last four are the ring's read pointers in the order `read_ptrs` returns them — the two segments `C05_read_is_tail` speaks about -/
theorem C05_wasm_finalize_words :
    SfVerif.Gen.wasmFinalizeSlots =
      [[111, 117, 116, 95, 112, 116, 114], [111, 117, 116, 95, 108, 101, 110],
       [108, 111, 103, 95, 112, 116, 114, 49], [108, 111, 103, 95, 108, 101, 110, 49],
       [108, 111, 103, 95, 112, 116, 114, 50], [108, 111, 103, 95, 108, 101, 110, 50]] := by decide +kernel

end SfVerif.Props.C05
