import SfVerif.Model.Ctx
import SfVerif.Lemmas.Hdr
import SfVerif.Lemmas.F64Exact
import SfVerif.Lemmas.Codes
import SfVerif.Lemmas.Lazy7
import SfVerif.Lemmas.Ctx5
import SfVerif.Lemmas.DocLink7
import SfVerif.Lemmas.GenMarkers
import SfVerif.Lemmas.GenReadEntry
/-! C01 — lazy reads equal eager decoding for every document and access history. -/
namespace SfVerif.Props.C01
open SfVerif SfVerif.Gen

/-- integers up to 2^53 in magnitude (every i8…i32/u8…u32 and most 64-bit values) are reported as
    exactly that number: the double handed to the guest has the integer's exact value -/
theorem C01_small_integers_exact (z : Int) (h : z.natAbs < 2 ^ 53) :
    F64.toInt? (F64.ofInt z) = some z := F64.toInt?_ofInt z h

/-- revisiting an element that was already parsed answers from the stored node and changes nothing
    (the fast path): the answer to a repeated query cannot depend on what happened in between -/
theorem C01_revisit_is_pure (b : Bytes) (f len e i : Nat) (elems : NodeList) (pairs : PairList)
    (hi : i < len) :
    (i < elems.length → arrGet b f len elems e i = (.arr len elems e, .at i)) ∧
    (i < pairs.length → objGet b f len pairs e i = (.obj len pairs e, .at i)) := by
  constructor
  · intro h; simp [arrGet, hi, h, Nat.not_le.mpr hi]
  · intro h; simp [objGet, hi, h, Nat.not_le.mpr hi]

/-- a property that was already found among the parsed pairs is answered from them, first match
    first, without touching the node -/
theorem C01_known_property_is_pure (b : Bytes) (f len e i : Nat) (pairs : PairList) (q : Bytes)
    (h : pairs.findKey b q = some i) : objProp b f len pairs e q = (.obj len pairs e, .at i) := by
  simp [objProp, h]

/-- type mismatches are answered by kind alone, with the documented codes, without touching the node -/
theorem C01_kind_errors (b : Bytes) (f i : Nat) (v : Scalar) (q : Bytes) (len e : Nat) (elems : NodeList) :
    (Node.scalar v).getAtIndex b f i = (.scalar v, .err ErrorCode_NotIndexable) ∧
    (Node.scalar v).getKeyAtIndex b f i = (.scalar v, .err ErrorCode_NotAnObject) ∧
    (Node.scalar v).getProp b f q = (.scalar v, .err ErrorCode_NotAnObject) ∧
    (Node.arr len elems e).getKeyAtIndex b f i = (.arr len elems e, .err ErrorCode_NotAnObject) ∧
    (Node.arr len elems e).getProp b f q = (.arr len elems e, .err ErrorCode_NotAnObject) := by
  simp [Node.getAtIndex, Node.getKeyAtIndex, Node.getProp]

/-- an out-of-range index is answered with IndexOutOfBounds without touching the node -/
theorem C01_out_of_range (b : Bytes) (f len e i : Nat) (elems : NodeList) (pairs : PairList) (h : len ≤ i) :
    arrGet b f len elems e i = (.arr len elems e, .err ErrorCode_IndexOutOfBounds) ∧
    objGet b f len pairs e i = (.obj len pairs e, .err ErrorCode_IndexOutOfBounds) := by
  simp [arrGet, objGet, h]


/-- **whatever was visited before, parsing the rest of a value lands where the eager decoder
    lands**: from *any* correct partial view of the value at `pos` (any subset of children
    already visited, in any order, through any handles — that is what `Inv` admits),
    `finish_processing` produces the complete view and reports exactly the end offset the
    sequential decoder computes; the result no longer depends on the history. -/
theorem C01_finish_equals_eager (b : Bytes) (f pos e : Nat) (n : Node)
    (hinv : Inv b pos n) (hs : skip b f pos = some e) :
    ∃ n', Node.finish b f n = (n', .ok (if n.isComposite then some e else none)) ∧ Done b pos n' e :=
  finish_done b f pos n e hinv hs

/-- a freshly created node (what `input_get` or a first visit creates) is a correct partial view -/
theorem C01_fresh_node_is_correct (b : Bytes) (pos : Nat) (h : Hdr) (hh : readHdr b pos = some h) :
    Inv b pos (mkNode h) := by
  cases h with
  | scalar v e => exact Inv.scalar hh
  | arr l body => exact Inv.arrClosed hh (by simp [NodeList.length]) Pre.nil
  | map l body => exact Inv.objClosed hh (by simp [PairList.length]) PreP.nil

/-- a complete view determines its end offset: two complete views of the same position agree
    with the eager decoder, hence with each other, on where the value ends -/
theorem C01_complete_view_end_unique (b : Bytes) (pos e1 e2 f : Nat) (n1 n2 : Node)
    (h1 : Done b pos n1 e1) (h2 : Done b pos n2 e2) (hs : (skip b f pos).isSome) : e1 = e2 := by
  obtain ⟨x, hx⟩ := Option.isSome_iff_exists.mp hs
  rw [← done_skip_agree h1 f x hx, ← done_skip_agree h2 f x hx]


/-- **element by index equals eager decoding, whatever the history**: from *any* correct partial
    view of an array (whatever prefix was visited before, through whatever handles, finished or
    not), if the sequential decoder reaches the header of element `i` by skipping the `i`
    elements before it, `get_at_index(i)` succeeds, leaves a correct partial view, and the node
    now stored at index `i` is a correct view of exactly the value at that offset (so its kind,
    scalar value, string extent and length are the header's). -/
theorem C01_array_element (b : Bytes) (f pos len body : Nat) (hh : readHdr b pos = some (.arr len body))
    (hf : b.size - body < f) (elems : NodeList) (e : Nat) (hinv : Inv b pos (.arr len elems e))
    (i : Nat) (hi : i < len) (p : Nat) (h : Hdr) (hp : skipN b f i body = some p) (hhp : readHdr b p = some h) :
    ∃ elems' e', arrGet b f len elems e i = (.arr len elems' e', .at i) ∧ Inv b pos (.arr len elems' e') ∧
      ∃ c, elems'.get? i = some c ∧ Inv b p c :=
  arrGet_ok hh hf hinv hi hp hhp

/-- **value and key of pair `i` of an object equal eager decoding, whatever the history** -/
theorem C01_object_pair (b : Bytes) (f pos len body : Nat) (hh : readHdr b pos = some (.map len body))
    (hf : b.size - body < f) (pairs : PairList) (e : Nat) (hinv : Inv b pos (.obj len pairs e))
    (i : Nat) (hi : i < len) (p ko kl ke : Nat) (h : Hdr) (hp : skipPairs b f i body = some p)
    (hk : readHdr b p = some (.scalar (.str ko kl) ke)) (hhv : readHdr b ke = some h) :
    ∃ pairs' e', objGet b f len pairs e i = (.obj len pairs' e', .at i) ∧ Inv b pos (.obj len pairs' e') ∧
      ∃ c, pairs'.get? i = some (ko, kl, c) ∧ Inv b ke c :=
  objGet_ok hh hf hinv hi hp hk hhv

/-- **property by name equals the specification, whatever the history**: `specProp` walks the
    pairs in document order and answers with the first pair whose key bytes equal the name
    (duplicates resolve to the first), "missing" when there is none. From any correct partial
    view the call returns that pair (a correct view of the value at the specification's offset)
    or `null`. -/
theorem C01_property_by_name (b : Bytes) (f pos len body : Nat) (q : Bytes)
    (hh : readHdr b pos = some (.map len body)) (hf : b.size - body < f) (pairs : PairList) (e : Nat)
    (hinv : Inv b pos (.obj len pairs e)) (hne : specProp b f q len body 0 ≠ .err) :
    ∃ pairs' e', Inv b pos (.obj len pairs' e') ∧
      ((∃ i ke, specProp b f q len body 0 = .found i ke ∧
          objProp b f len pairs e q = (.obj len pairs' e', .at i) ∧
          ∃ ko kl c, pairs'.get? i = some (ko, kl, c) ∧ Inv b ke c) ∨
       (specProp b f q len body 0 = .missing ∧ objProp b f len pairs e q = (.obj len pairs' e', .missing))) :=
  objProp_ok hh hf hinv hne

/-- a correct view of the value at an offset carries that offset's header: same kind, same scalar,
    same declared length, same string extent — what the call boxes and returns -/
theorem C01_view_matches_header (b : Bytes) (pos : Nat) (n : Node) (h : Inv b pos n) :
    (∀ v, n = .scalar v → ∃ e, readHdr b pos = some (.scalar v e)) ∧
    (∀ len elems e, n = .arr len elems e → ∃ body, readHdr b pos = some (.arr len body)) ∧
    (∀ len pairs e, n = .obj len pairs e → ∃ body, readHdr b pos = some (.map len body)) := by
  cases h <;> refine ⟨?_, ?_, ?_⟩ <;> intros <;> simp_all

/-- non-vacuity: the premises are satisfiable — `[[1],[2],[3],7]`: the root is a correct partial
    view, the eager walk reaches element 3 at offset 7 and its header reads -/
example : Inv #[0x94, 0x91, 1, 0x91, 2, 0x91, 3, 7] 0 (.arr 4 .nil 1) ∧
    skipN #[0x94, 0x91, 1, 0x91, 2, 0x91, 3, 7] 9 3 1 = some 7 ∧
    (readHdr #[0x94, 0x91, 1, 0x91, 2, 0x91, 3, 7] 7).isSome = true := by
  refine ⟨fresh_inv (h := .arr 4 1) (by decide), ?_, by decide⟩
  simp [skipN, skip, readHdr, hdrOfMarker, hdrFix, arrHdr, mapHdr, strHdr]

/-! ### through handles, at the level of the provider context -/

/-- **a handle denotes the eager decoder's value**: in every context whose roots are correct
    partial views (every reachable one, `C01_reachable`), a valid handle's path is a path the
    eager decoder can follow from offset 0, and the node is a correct partial view of the value
    found there (so kind, length, scalar value and string extent are that header's) -/
theorem C01_handle_denotes_eager_value (c : Ctx) (hc : CInv c) (h : Handle) (m : Node)
    (hm : c.nodeAt? h = some m) :
    ∃ pos hd, specPath c.input 0 h.path = some pos ∧ readHdr c.input pos = some hd ∧
      Inv c.input pos m ∧ m.shape = (mkNode hd).shape := by
  obtain ⟨pos, hd, h1, h2, h3, _, h6⟩ := nodeAt_spec hc hm
  exact ⟨pos, hd, h1, h2, h3, h6⟩

/-- **each read entry point answers what the specification computes from the bytes**
    (`Spec/Read.lean`: positions by the eager sequential walk, values from the headers found
    there, first-match property lookup, documented error codes) — on any valid handle, in any
    context with correct roots, whatever was visited before; afterwards the roots are still
    correct, every handle is still valid and denotes a node of the same shape, and a returned
    box names an existing node -/
theorem C01_entry_points_equal_spec (c : Ctx) (hc : CInv c) (h : Handle) (m : Node)
    (hm : c.nodeAt? h = some m) :
    (∀ i, (c.getAtIndex (.node h) i).2 = Spec.getAtIndex c.input h i ∧
          ReadStepOK c (c.getAtIndex (.node h) i).1 (c.getAtIndex (.node h) i).2) ∧
    (∀ i, (c.getKeyAtIndex (.node h) i).2 = Spec.getKeyAtIndex c.input h i ∧
          ReadStepOK c (c.getKeyAtIndex (.node h) i).1 (c.getKeyAtIndex (.node h) i).2) ∧
    (∀ q, (c.getObjProp (.node h) q).2 = Spec.getObjProp c.input h q ∧
          ReadStepOK c (c.getObjProp (.node h) q).1 (c.getObjProp (.node h) q).2) ∧
    c.getValLen (.node h) = Spec.getValLen c.input h ∧ c.strOffset h = Spec.strOffset c.input h :=
  ⟨fun i => getAtIndex_node_ok hc hm i, fun i => getKeyAtIndex_node_ok hc hm i,
   fun q => getObjProp_node_ok hc hm q, (getValLen_node_ok hc hm).1, (getValLen_node_ok hc hm).2⟩

/-- the context right after `initialize_from_msgpack_bytes` has correct roots (it has none) -/
theorem C01_initial_context (c : Ctx) (b : Bytes) : CInv (c.reinit b) ∧ (c.reinit b).input = b ∧
    (c.reinit b).roots.size = 0 := by
  refine ⟨?_, rfl, rfl⟩
  intro k r hk
  simp [Ctx.reinit, Ctx.fresh] at hk

/-- **every document × every access history**: for any document — well-formed or not (on
    undecodable parts the specification itself says `ReadError`) — and any finite
    sequence of read calls (root fetches, element / key / property / length / string-address
    calls) in which the client only uses handles it was given earlier — revisits, out of order,
    interleaved across siblings, error-returning calls in between, the root fetched again — the
    answers, call by call, are exactly `Spec.run`: a function of the document bytes and each
    call's own position and arguments. Nothing else enters: two histories that ask the same
    question get the same answer. -/
theorem C01_every_history (c0 : Ctx) (b : Bytes) (ops : List ROp)
    (hresp : Spec.respects b 0 [] ops) :
    ((c0.reinit b).rrun ops).1 = Spec.run b 0 ops := by
  obtain ⟨h1, h2, h3⟩ := C01_initial_context c0 b
  have := rrun_ok ops (c0.reinit b) [] h1 (by intro h hh; cases hh)
    (by rw [h2, h3]; exact hresp)
  rw [h2, h3] at this
  exact this.1

/-- and from any later point of any history (`c` reachable: correct roots, `issued` all valid) -/
theorem C01_every_history_from (c : Ctx) (issued : List Handle) (hc : CInv c)
    (hiss : ∀ h ∈ issued, (c.nodeAt? h).isSome) (ops : List ROp)
    (hresp : Spec.respects c.input c.roots.size issued ops) :
    (c.rrun ops).1 = Spec.run c.input c.roots.size ops ∧ CInv (c.rrun ops).2 :=
  let r := rrun_ok ops c issued hc hiss hresp; ⟨r.1, r.2.1⟩

/-- **history independence, stated outright**: the same call on the same handle in two contexts
    that went through different histories over the same document gets the same answer -/
theorem C01_answer_independent_of_history (c1 c2 : Ctx) (h1 : CInv c1) (h2 : CInv c2)
    (hb : c1.input = c2.input) (h : Handle) (m1 m2 : Node)
    (hm1 : c1.nodeAt? h = some m1) (hm2 : c2.nodeAt? h = some m2) (i : Nat) (q : Bytes) :
    (c1.getAtIndex (.node h) i).2 = (c2.getAtIndex (.node h) i).2 ∧
    (c1.getKeyAtIndex (.node h) i).2 = (c2.getKeyAtIndex (.node h) i).2 ∧
    (c1.getObjProp (.node h) q).2 = (c2.getObjProp (.node h) q).2 ∧
    c1.getValLen (.node h) = c2.getValLen (.node h) ∧ c1.strOffset h = c2.strOffset h := by
  refine ⟨?_, ?_, ?_, ?_, ?_⟩
  · rw [(getAtIndex_node_ok h1 hm1 i).1, (getAtIndex_node_ok h2 hm2 i).1, hb]
  · rw [(getKeyAtIndex_node_ok h1 hm1 i).1, (getKeyAtIndex_node_ok h2 hm2 i).1, hb]
  · rw [(getObjProp_node_ok h1 hm1 q).1, (getObjProp_node_ok h2 hm2 q).1, hb]
  · rw [(getValLen_node_ok h1 hm1).1, (getValLen_node_ok h2 hm2).1, hb]
  · rw [(getValLen_node_ok h1 hm1).2, (getValLen_node_ok h2 hm2).2, hb]

/-! ### against the fully decoded document tree -/

/-- **the specification is the decoded tree**: when the whole input decodes (tree decoder
    `Model/Doc.decodeAll`, every byte consumed, string keys) to the document `d`, then for every
    position `path` of `d` the answers `Spec/Read` computes by walking headers are the answers
    read off the sub-document at that position: the boxed value (type, nearest double of an
    integer, exact widening of a float32, string length, container length), element / value / key by
    index, first-match property by name (`null` when missing), length -/
theorem C01_spec_is_the_decoded_tree (b : Bytes) (d : Doc) (hd : Decodes b d) (h : Handle) (dc : Doc)
    (hc : d.getPath? h.path = some dc) :
    Spec.valueAt b h.root h.path = dc.box h ∧
    (∀ i, Spec.getAtIndex b h i = DocSpec.getAtIndex dc h i) ∧
    (∀ i, Spec.getKeyAtIndex b h i = DocSpec.getKeyAtIndex dc h i) ∧
    (∀ q, Spec.getObjProp b h q = DocSpec.getObjProp dc h q) ∧
    Spec.getValLen b h = some (DocSpec.getValLen dc) :=
  ⟨valueAt_doc hd hc h.root, fun i => getAtIndex_doc hd hc i, fun i => getKeyAtIndex_doc hd hc i,
   fun q => getObjProp_doc hd hc q, getValLen_doc hd hc⟩

/-- **lazy reads equal eager decoding**: in every reachable context over a document that decodes
    to `d`, a valid handle is a position of `d`, and every read entry point returns exactly what
    the sub-document at that position says — whatever was visited before -/
theorem C01_reads_are_the_decoded_tree (c : Ctx) (hc : CInv c) (d : Doc) (hd : Decodes c.input d)
    (h : Handle) (m : Node) (hm : c.nodeAt? h = some m) :
    ∃ dc, d.getPath? h.path = some dc ∧
      (∀ i, (c.getAtIndex (.node h) i).2 = DocSpec.getAtIndex dc h i) ∧
      (∀ i, (c.getKeyAtIndex (.node h) i).2 = DocSpec.getKeyAtIndex dc h i) ∧
      (∀ q, (c.getObjProp (.node h) q).2 = DocSpec.getObjProp dc h q) ∧
      c.getValLen (.node h) = some (DocSpec.getValLen dc) := by
  obtain ⟨dc, hdc⟩ := handle_in_doc hc hd hm
  refine ⟨dc, hdc, ?_, ?_, ?_, ?_⟩
  · intro i; rw [(getAtIndex_node_ok hc hm i).1]; exact getAtIndex_doc hd hdc i
  · intro i; rw [(getKeyAtIndex_node_ok hc hm i).1]; exact getKeyAtIndex_doc hd hdc i
  · intro q; rw [(getObjProp_node_ok hc hm q).1]; exact getObjProp_doc hd hdc q
  · rw [(getValLen_node_ok hc hm).1]; exact getValLen_doc hd hdc

/-- the string bytes behind a string handle are the decoded string: offset and length delimit
    exactly `bs` in the input (this is the extent `read_utf8_str` copies) -/
theorem C01_string_bytes (b : Bytes) (d : Doc) (hd : Decodes b d) (h : Handle) (bs : Bytes)
    (hc : d.getPath? h.path = some (.str bs)) :
    ∃ off, Spec.strOffset b h = some off ∧ Spec.getValLen b h = some bs.size ∧
      b.extract off (off + bs.size) = bs := by
  obtain ⟨p, f, e, hdr, hp, _, _, _, hrd, hdoc⟩ := doc_at hd hc
  have hhdr : Spec.hdrAt b h = some hdr := by simp only [Spec.hdrAt, hp, hrd]
  cases hdr with
  | scalar v ee =>
    cases v with
    | str off len =>
      simp only [HdrDoc] at hdoc
      obtain ⟨rfl, hle⟩ := hdoc
      have hsz : (b.extract off (off + len)).size = len := by simp [Array.size_extract]; omega
      refine ⟨off, by simp only [Spec.strOffset, hhdr], ?_, by rw [hsz]⟩
      simp only [Spec.getValLen, hhdr, mkNode, Node.valueLength, hsz]
    | null => simp [HdrDoc] at hdoc
    | bool x => simp [HdrDoc] at hdoc
    | num x => simp [HdrDoc, Doc.numBits?] at hdoc
  | arr l bd => simp [HdrDoc] at hdoc
  | map l bd => simp [HdrDoc] at hdoc

/-- non-vacuity: `[[1],{"a":2}]` decodes, with string keys only -/
example : Decodes #[0x92, 0x91, 1, 0x81, 0xa1, 0x61, 2]
    (.arr [.arr [.int 1], .map [(.str #[0x61], .int 2)]]) := by
  constructor
  · simp [decodeAll, decodeAt, decodeN, decodePairs, markerOf, markerTagged, strDoc]
  · simp [Doc.keysStr, Doc.keysStrList, Doc.keysStrPairs]

/-- non-vacuity: `[[1],{"a":2}]` is well-formed, and a history that fetches the root, takes
    element 1, looks up `"a"` in it, revisits element 0, asks its length and indexes into a null
    respects the protocol -/
example : WF #[0x92, 0x91, 1, 0x81, 0xa1, 0x61, 2] ∧
    Spec.respects #[0x92, 0x91, 1, 0x81, 0xa1, 0x61, 2] 0 []
      [.root, .atIndex (.node ⟨0, []⟩) 1, .prop (.node ⟨0, [.elem 1]⟩) #[0x61], .atIndex (.node ⟨0, []⟩) 0,
       .len (.node ⟨0, [.elem 0]⟩), .atIndex (.lit (.ok .null)) 0] := by
  constructor
  · exact ⟨7, by simp [eagerFuel, skip, skipN, skipPairs, readHdr, hdrOfMarker, hdrFix, arrHdr, mapHdr, strHdr]⟩
  · simp [Spec.respects, Spec.answer, Spec.valueAt, Spec.getAtIndex, Spec.getObjProp, Spec.hdrAt, specPath,
      specChild, specKeyPos, specProp, keyEq, eagerFuel, skip, skipN, skipPairs, readHdr, hdrOfMarker, hdrFix,
      arrHdr, mapHdr, strHdr, mkNode, Ctx.encodeNode, RAns.handles, ROp.handle?, Scope.handle?, ROp.nextRoots,
      Spec.litAnswer]

/-- **tie by translation**: the header reader of the model is equal to the dispatch regenerated,
    arm by arm, from the `match marker` of `LazyValueRef::new` (provider/src/read/lazy_value_ref.rs);
    the cursor's fixed-width readers are checked for their width, bounds check and byte order -/
theorem C01_header_reader_is_the_source_text (b : Bytes) (p m : Nat) : hdrOfMarkerGen b p m = hdrOfMarker b p m :=
  gen_hdrOfMarker_eq b p m

/-- **tie by translation**: the scope dispatch of the read entry points (which decoded kinds are
    accepted, which node operation is run, which codes answer a wrong kind / an undecodable
    scope, `Ok(None)` → null) is regenerated from provider/src/read.rs and equal to the model's -/
theorem C01_entry_dispatch_is_the_source_text (c : Ctx) (s : Scope) (i : Nat) (q : Bytes) :
    getAtIndexGen c s i = c.getAtIndex s i ∧ getKeyAtIndexGen c s i = c.getKeyAtIndex s i ∧
    getObjPropGen c s q = c.getObjProp s q := gen_read_entries_eq c s i q

/-- the same for the lookup by interned name -/
theorem C01_interned_entry_dispatch_is_the_source_text (c : Ctx) (s : Scope) (q : Bytes) :
    getInternedObjPropGen c s q = c.getObjProp s q := gen_interned_entry_eq c s q

end SfVerif.Props.C01
