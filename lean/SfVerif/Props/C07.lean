import SfVerif.Model.Tramp
import SfVerif.Lemmas.Tramp2
import SfVerif.Props.C04
/-! C07 — trampolining preserves the guest, is idempotent, refuses what it cannot handle.
    Proved here: the acceptance / refusal logic (over the tables regenerated from
    trampoline/src/lib.rs). "Own behaviour exactly as before" depends on walrus' re-emission and is
    validated by differential execution in wasmtime (see DESIGN.md), not proved. -/
namespace SfVerif.Props.C07
open SfVerif SfVerif.Tramp SfVerif.Gen

/-- a module without a memory of its own is returned unchanged -/
theorem C07_noop_without_memory (m : Summary) (h : m.ownMems = 0) : apply m = .noop := by
  simp [apply, h]

/-- a module that defines more than one memory is rejected -/
theorem C07_reject_multi_memory (m : Summary) (h : 2 ≤ m.ownMems) : apply m = .reject 0 := by
  simp [apply, h]

/-- an unknown name imported from the API namespace is rejected (whatever else the module contains) -/
theorem C07_reject_unknown_name (m : Summary) (h1 : m.ownMems = 1) (i : Imp) (hi : i ∈ m.imports)
    (hm : i.module = provider) (hn : knownName i.name = false) : apply m = .reject 1 := by
  have hany : m.imports.any (fun i => i.module == provider && !knownName i.name) = true := by
    rw [List.any_eq_true]; exact ⟨i, hi, by simp [hm, hn]⟩
  simp [apply, h1, hany]

/-- facts about the regenerated tables: a first column entry is a public API name; a second column
    entry is empty or a provider export; what is tolerated beyond the table is a provider export
    or the memory -/
theorem table_orig_public : ∀ p ∈ trampolineImportPairs, p.1 ∈ abiWat.map (·.1) := by decide +kernel
theorem table_new_exported : ∀ p ∈ trampolineImportPairs, p.2.isEmpty = true ∨ p.2 ∈ providerExports.map (·.1) := by
  decide +kernel
theorem table_allow_exported : ∀ n ∈ trampolineAllowList, n ∈ providerExports.map (·.1) ∨ n = memoryName := by
  decide +kernel

/-- **"known" means "part of the ABI"**: a name the first scan tolerates in the API namespace is a
    public API function (as the WAT lists them), a name the provider exports, or `memory` -/
theorem C07_known_names_are_the_abi (n : List Nat) (h : knownName n = true) :
    n ∈ abiWat.map (·.1) ∨ n ∈ providerExports.map (·.1) ∨ n = memoryName := by
  unfold knownName at h
  rw [Bool.or_eq_true] at h
  rcases h with h | h
  · rw [List.any_eq_true] at h
    obtain ⟨p, hp, hpn⟩ := h
    rw [Bool.or_eq_true] at hpn
    rcases hpn with hpn | hpn
    · have : p.1 = n := by simpa using hpn
      exact Or.inl (this ▸ table_orig_public p hp)
    · rw [Bool.and_eq_true] at hpn
      have h2 : p.2 = n := by simpa using hpn.2
      rcases table_new_exported p hp with he | he
      · rw [he] at hpn; simp at hpn
      · exact Or.inr (Or.inl (h2 ▸ he))
  · have : n ∈ trampolineAllowList := by simpa using h
    rcases table_allow_exported n this with h1 | h1
    · exact Or.inr (Or.inl h1)
    · exact Or.inr (Or.inr h1)

/-- hence: a module with a memory of its own that imports, from the API namespace, a name that is
    neither a public API function nor exported by the provider nor `memory` — the empty name
    included (F12) — is rejected, whatever else it contains -/
theorem C07_reject_name_outside_abi (m : Summary) (h1 : m.ownMems = 1) (i : Imp) (hi : i ∈ m.imports)
    (hm : i.module = provider) (h_api : i.name ∉ abiWat.map (·.1))
    (h_exp : i.name ∉ providerExports.map (·.1)) (h_mem : i.name ≠ memoryName) : apply m = .reject 1 := by
  apply C07_reject_unknown_name m h1 i hi hm
  cases hk : knownName i.name with
  | false => rfl
  | true =>
    rcases C07_known_names_are_the_abi _ hk with h | h | h
    · exact absurd h h_api
    · exact absurd h h_exp
    · exact absurd h h_mem

/-- non-vacuity: the empty name is outside the ABI, and a module importing it is refused -/
example : (match apply { ownMems := 1, imports := [{ module := provider, name := [], kind := 0 }] } with
    | .reject 1 => true
    | _ => false) = true := by decide +kernel

/-- an import from an API module of another version is rejected -/
theorem C07_reject_other_version (m : Summary) (h1 : m.ownMems = 1) (i : Imp) (hi : i ∈ m.imports)
    (hp : versionPrefix.isPrefixOf i.module = true) (hne : i.module ≠ provider) :
    ∃ c, apply m = .reject c := by
  by_cases hany1 : m.imports.any (fun i => i.module == provider && !knownName i.name) = true
  · exact ⟨1, by simp [apply, h1, hany1]⟩
  · have hany2 : m.imports.any (fun i => versionPrefix.isPrefixOf i.module && i.module != provider) = true := by
      rw [List.any_eq_true]; exact ⟨i, hi, by simp [hp, hne]⟩
    exact ⟨2, by simp [apply, h1, hany1, hany2]⟩

/-- **the guest memory stays the module's own**: an accepted module keeps exactly one defined
    memory, never turns an existing import into something of another kind or namespace, and
    everything the tool adds is imported from the provider namespace -/
theorem C07_memory_stays_own (m : Summary) (s : Summary) (h : apply m = .rewrite s) :
    s.ownMems = 1 ∧ m.ownMems = 1 ∧
    ∀ j ∈ s.imports, (∃ i ∈ m.imports, i.module = j.module ∧ i.kind = j.kind) ∨ j.module = provider := by
  unfold apply at h
  split at h
  · cases h
  · split at h
    · cases h
    · rename_i h2 h0
      split at h
      · cases h
      · split at h
        · cases h
        · split at h
          · cases h
          · rename_i imps added needMem hap
            simp only [Decision.rewrite.injEq] at h
            subst h
            have := applyPairs_modules _ _ _ _ _ _ _ hap (by intro a ha; cases ha)
            refine ⟨rfl, by omega, ?_⟩
            intro j hj
            simp only [List.mem_append] at hj
            rcases hj with (hj | hj) | hj
            · exact Or.inl (this.1 j hj)
            · exact Or.inr (this.2 j hj)
            · split at hj
              · simp at hj; subst hj; exact Or.inr rfl
              · cases hj

/-- in every module the real trampoline produced for the fixed family, memory 0 is the imported
    provider memory and memory 1 is still defined by the guest -/
theorem C07_emitted_memories : ∀ M ∈ glueModules, M.memsImported = [true, false] := by decide +kernel

/-- non-vacuity: a plain module with one memory, the log import and a foreign import is accepted,
    and ends up with three provider imports (renamed log provider function, memory) plus the foreign one -/
example : (match apply { ownMems := 1, imports := [
      { module := provider, name := nmLog, kind := 0, params := [0, 0], results := [] },
      { module := [101, 110, 118], name := [102], kind := 0 }] } with
    | .rewrite s => s.imports.length
    | _ => 0) = 3 := by decide +kernel

/-! ### a string-carrying import with the wrong signature is refused -/

/-- once the walk meets (or has already failed before meeting) a function import of a
    string-carrying name whose signature is not the expected one, it fails -/
theorem applyPairs_bad_sig : ∀ (pairs : List (List Nat × List Nat)) (imps added : List Imp) (nm : Bool)
    (i : Imp) (ps rs : List Nat), i ∈ imps → i.module = provider → i.kind = 0 →
    expectedSig? i.name = some (ps, rs) → (i.params ≠ ps ∨ i.results ≠ rs) →
    (∃ new, (i.name, new) ∈ pairs) →
    ∃ c, applyPairs pairs imps added nm = .error c := by
  intro pairs
  induction pairs with
  | nil => intro imps added nm i ps rs _ _ _ _ _ hin; obtain ⟨_, h⟩ := hin; cases h
  | cons p rest ih =>
    intro imps added nm i ps rs hi hm hk hsig hbad hin
    obtain ⟨orig, new⟩ := p
    unfold applyPairs
    cases hs : stepOne orig new imps added nm with
    | error c => exact ⟨c, rfl⟩
    | ok r =>
      obtain ⟨i1, a1, n1⟩ := r
      simp only []
      have hapi : ∀ o, i.isApi o = true ↔ i.name = o := by
        intro o; simp [Imp.isApi, hm]
      by_cases hname : i.name = orig
      · -- this entry is the offending import's: it cannot have succeeded
        exfalso
        rcases stepOne_ok hs with ⟨ps', rs', k, hsig', _, _, hall⟩ | ⟨hsig', _, _, _, _⟩
        · rw [← hname, hsig] at hsig'
          simp only [Option.some.injEq, Prod.mk.injEq] at hsig'
          obtain ⟨rfl, rfl⟩ := hsig'
          have := hall i hi ((hapi orig).mpr hname) hk
          rcases hbad with hb | hb
          · exact hb this.1
          · exact hb this.2
        · rw [← hname, hsig] at hsig'; cases hsig'
      · have hin' : ∃ new, (i.name, new) ∈ rest := by
          obtain ⟨n, hn⟩ := hin
          rcases List.mem_cons.mp hn with h | h
          · simp only [Prod.mk.injEq] at h; exact absurd h.1 hname
          · exact ⟨n, h⟩
        have hnot : i.isApi orig = false := by
          cases hc : i.isApi orig with
          | false => rfl
          | true => exact absurd ((hapi orig).mp hc) hname
        apply ih i1 a1 n1 i ps rs ?_ hm hk hsig hbad hin'
        rcases stepOne_ok hs with ⟨_, _, _, _, rfl, _, _⟩ | ⟨_, _, rfl, _, _⟩
        · exact List.mem_filter.mpr ⟨hi, by simp [hnot]⟩
        · rw [List.mem_map]
          exact ⟨i, hi, by simp [renameFn, hnot]⟩

/-- every string-carrying name is an entry of the IMPORTS table (regenerated tables) -/
theorem sig_names_in_table : ∀ e ∈ trampolineExpectedSigs, trampolineImportPairs.any (fun p => p.1 == e.1) = true := by
  decide +kernel

theorem expectedSig_in_table {n : List Nat} {ps rs : List Nat} (h : expectedSig? n = some (ps, rs)) :
    ∃ new, (n, new) ∈ trampolineImportPairs := by
  unfold expectedSig? at h
  cases hf : trampolineExpectedSigs.find? (fun e => e.1 == n) with
  | none => rw [hf] at h; cases h
  | some e =>
    have hmem := List.mem_of_find?_eq_some hf
    have hname : e.1 = n := by simpa using List.find?_some hf
    have := sig_names_in_table e hmem
    rw [List.any_eq_true] at this
    obtain ⟨p, hp, hpe⟩ := this
    refine ⟨p.2, ?_⟩
    have : p.1 = n := by rw [← hname]; simpa using hpe
    rw [← this]; exact hp

/-- "string-carrying" is not the tool's own notion: for every function of the ABI whose C prototype
    takes a pointer into guest memory the (probed) tool insists on one signature -/
theorem C07_pointer_functions_are_checked : ∀ n ∈ abiPointerFns, (expectedSig? n).isSome = true := by
  decide +kernel

/-- **a string-carrying import with the wrong signature is rejected** — wherever it stands in
    the import section, whatever else the module imports, also when the same function is
    imported a second time with the right signature -/
theorem C07_reject_bad_signature (m : Summary) (h1 : m.ownMems = 1) (i : Imp) (hi : i ∈ m.imports)
    (hm : i.module = provider) (hk : i.kind = 0) (ps rs : List Nat)
    (hsig : expectedSig? i.name = some (ps, rs)) (hbad : i.params ≠ ps ∨ i.results ≠ rs) :
    ∃ c, apply m = .reject c := by
  unfold apply
  rw [if_neg (by omega), if_neg (by omega)]
  split
  · exact ⟨1, rfl⟩
  · split
    · exact ⟨2, rfl⟩
    · obtain ⟨c, hc⟩ := applyPairs_bad_sig trampolineImportPairs m.imports [] false i ps rs hi hm hk hsig hbad
        (expectedSig_in_table hsig)
      rw [hc]
      exact ⟨c, rfl⟩

/-! ### applying the tool again changes nothing -/

/-- facts about the regenerated tables: no new name is an original name; helper names are known,
    and none of them — nor `memory` — is an original name -/
theorem table_new_ne_orig : ∀ p ∈ trampolineImportPairs, ∀ q ∈ trampolineImportPairs, q.2 ≠ p.1 := by decide +kernel
theorem table_adds_known : ∀ p ∈ trampolineImportPairs, ∀ x ∈ addsFor p.1, knownName x = true := by decide +kernel
theorem table_adds_ne_orig : ∀ p ∈ trampolineImportPairs, ∀ p' ∈ trampolineImportPairs, ∀ x ∈ addsFor p'.1, x ≠ p.1 := by
  decide +kernel
theorem table_alloc : knownName allocName = true ∧ ∀ p ∈ trampolineImportPairs, allocName ≠ p.1 := by decide +kernel
theorem table_memory : knownName memoryName = true ∧ ∀ p ∈ trampolineImportPairs, memoryName ≠ p.1 := by decide +kernel
theorem table_new_known : ∀ p ∈ trampolineImportPairs, expectedSig? p.1 = none → knownName p.2 = true := by decide +kernel

/-- **idempotence of the rewrite decision**: the import section the tool produces is one the
    tool accepts and leaves exactly as it is -/
theorem C07_idempotent (m s : Summary) (h : apply m = .rewrite s) : apply s = .rewrite s := by
  unfold apply at h
  split at h
  · cases h
  · split at h
    · cases h
    · rename_i h2 h0
      split at h
      · cases h
      · rename_i hc1
        split at h
        · cases h
        · rename_i hc2
          split at h
          · cases h
          · rename_i imps added needMem hap
            simp only [Decision.rewrite.injEq] at h
            have hmods := applyPairs_modules _ _ _ _ _ _ _ hap (by intro a ha; cases ha)
            have hnames := applyPairs_names _ _ _ _ _ _ _ hap
            have hadded := applyPairs_added _ _ _ _ _ _ _ hap
            have hdone := applyPairs_all_done _ _ _ _ _ _ _ hap table_new_ne_orig
            -- the three kinds of imports of `s`
            have hcases : ∀ j ∈ s.imports,
                (j ∈ imps) ∨
                (j.module = provider ∧ ((∃ p ∈ trampolineImportPairs, j.name ∈ addsFor p.1) ∨ j.name = allocName)) ∨
                (j.module = provider ∧ j.name = memoryName) := by
              intro j hj
              rw [← h] at hj
              simp only [List.mem_append] at hj
              rcases hj with (hj | hj) | hj
              · exact Or.inl hj
              · rcases hadded j hj with hx | ⟨hm, _, hn⟩
                · cases hx
                · exact Or.inr (Or.inl ⟨hm, hn⟩)
              · split at hj
                · simp at hj; subst hj; exact Or.inr (Or.inr ⟨rfl, rfl⟩)
                · cases hj
            have hnot1 : ¬ (s.imports.any (fun i => i.module == provider && !knownName i.name) = true) := by
              rw [List.any_eq_true]
              rintro ⟨j, hj, hbad⟩
              simp only [Bool.and_eq_true, beq_iff_eq, Bool.not_eq_true'] at hbad
              rcases hcases j hj with hji | ⟨_, hn⟩ | ⟨_, hn⟩
              · rcases hnames j hji with hjm | ⟨_, p, hp, hnone, hn⟩
                · apply hc1
                  rw [List.any_eq_true]
                  exact ⟨j, hjm, by simp [hbad.1, hbad.2]⟩
                · rw [hn, table_new_known p hp hnone] at hbad; cases hbad.2
              · rcases hn with ⟨p, hp, hx⟩ | hx
                · rw [table_adds_known p hp _ hx] at hbad; cases hbad.2
                · rw [hx, table_alloc.1] at hbad; cases hbad.2
              · rw [hn, table_memory.1] at hbad; cases hbad.2
            have hnot2 : ¬ (s.imports.any (fun i => versionPrefix.isPrefixOf i.module && i.module != provider) = true) := by
              rw [List.any_eq_true]
              rintro ⟨j, hj, hbad⟩
              simp only [Bool.and_eq_true, bne_iff_ne, ne_eq] at hbad
              rcases hcases j hj with hji | ⟨hm, _⟩ | ⟨hm, _⟩
              · obtain ⟨i, hi, hmod, _⟩ := hmods.1 j hji
                apply hc2
                rw [List.any_eq_true]
                exact ⟨i, hi, by simp only [Bool.and_eq_true, bne_iff_ne, ne_eq]; rw [hmod]; exact hbad⟩
              · exact hbad.2 hm
              · exact hbad.2 hm
            have hsettled : ∀ p ∈ trampolineImportPairs, Done p.1 s.imports := by
              intro p hp j hj hapi
              have hname : j.name = p.1 := by
                simp only [Imp.isApi, Bool.and_eq_true, beq_iff_eq] at hapi; exact hapi.2
              rcases hcases j hj with hji | ⟨_, hn⟩ | ⟨_, hn⟩
              · exact hdone p hp j hji hapi
              · exfalso
                rcases hn with ⟨p', hp', hx⟩ | hx
                · exact table_adds_ne_orig p hp p' hp' _ hx hname
                · exact table_alloc.2 p hp (hx ▸ hname)
              · exfalso
                exact table_memory.2 p hp (hn ▸ hname)
            have hown : s.ownMems = 1 := by rw [← h]
            unfold apply
            rw [if_neg (by omega), if_neg (by omega), if_neg hnot1, if_neg hnot2,
              applyPairs_settled trampolineImportPairs s.imports [] false hsettled]
            simp only [Bool.false_eq_true, if_false, List.append_nil]
            cases s
            simp only at hown
            subst hown
            rfl

/-- non-vacuity, and the F11 shape: the same function imported twice, the second time with a
    wrong signature, is refused -/
example : (match apply { ownMems := 1, imports := [
      { module := provider, name := nmLog, kind := 0, params := [0, 0], results := [] },
      { module := provider, name := nmLog, kind := 0, params := [1], results := [] }] } with
    | .reject 3 => true
    | _ => false) = true := by decide +kernel

end SfVerif.Props.C07
