import SfVerif.Model.Tramp
import SfVerif.Props.C04
/-! C07 — trampolining preserves the guest, is idempotent, refuses what it cannot handle.
    Proved here: the acceptance / refusal logic (over the tables regenerated from
    trampoline/src/lib.rs). "Own behaviour exactly as before" depends on walrus' re-emission and is
    validated by differential execution in wasmtime (see DESIGN.md), not proved. -/
namespace SfVerif.Props.C07
open SfVerif SfVerif.Tramp SfVerif.Gen

/-- a module without a memory of its own is returned unchanged -/
theorem C07_noop_without_memory (m : Summary) (h : m.ownMems = 0) : apply m = .noop := by
  simp [apply, h]

/-- a module that defines more than one memory is rejected -/
theorem C07_reject_multi_memory (m : Summary) (h : 2 ≤ m.ownMems) : apply m = .reject 0 := by
  simp [apply, h]

/-- an unknown name imported from the API namespace is rejected (whatever else the module contains) -/
theorem C07_reject_unknown_name (m : Summary) (h1 : m.ownMems = 1) (i : Imp) (hi : i ∈ m.imports)
    (hm : i.module = provider) (hn : knownName i.name = false) : apply m = .reject 1 := by
  have hany : m.imports.any (fun i => i.module == provider && !knownName i.name) = true := by
    rw [List.any_eq_true]; exact ⟨i, hi, by simp [hm, hn]⟩
  simp [apply, h1, hany]

/-- an import from an API module of another version is rejected -/
theorem C07_reject_other_version (m : Summary) (h1 : m.ownMems = 1) (i : Imp) (hi : i ∈ m.imports)
    (hp : versionPrefix.isPrefixOf i.module = true) (hne : i.module ≠ provider) :
    ∃ c, apply m = .reject c := by
  by_cases hany1 : m.imports.any (fun i => i.module == provider && !knownName i.name) = true
  · exact ⟨1, by simp [apply, h1, hany1]⟩
  · have hany2 : m.imports.any (fun i => versionPrefix.isPrefixOf i.module && i.module != provider) = true := by
      rw [List.any_eq_true]; exact ⟨i, hi, by simp [hp, hne]⟩
    exact ⟨2, by simp [apply, h1, hany1, hany2]⟩

/-- walking the table never changes the module of an import it keeps, and everything it adds is in
    the provider namespace -/
theorem applyPairs_modules : ∀ (pairs : List (List Nat × List Nat)) (imps added : List Imp) (nm : Bool)
    (imps' added' : List Imp) (nm' : Bool),
    applyPairs pairs imps added nm = .ok (imps', added', nm') →
    (∀ a ∈ added, a.module = provider) →
    (∀ j ∈ imps', ∃ i ∈ imps, i.module = j.module ∧ i.kind = j.kind) ∧ (∀ a ∈ added', a.module = provider) := by
  intro pairs
  induction pairs with
  | nil =>
    intro imps added nm imps' added' nm' h hadd
    simp [applyPairs] at h
    obtain ⟨rfl, rfl, _⟩ := h
    exact ⟨fun j hj => ⟨j, hj, rfl, rfl⟩, hadd⟩
  | cons p rest ih =>
    intro imps added nm imps' added' nm' h hadd
    obtain ⟨orig, new⟩ := p
    unfold applyPairs at h
    split at h
    · -- string-carrying import
      split at h
      · exact ih _ _ _ _ _ _ h hadd
      · rename_i i hfind
        split at h
        · cases h
        · have := ih _ _ _ _ _ _ h (by
            intro a ha
            rw [List.mem_append] at ha
            rcases ha with ha | ha
            · exact hadd a ha
            · simp only [List.mem_map] at ha
              obtain ⟨_, _, rfl⟩ := ha
              rfl)
          refine ⟨?_, this.2⟩
          intro j hj
          obtain ⟨i', hi', hm⟩ := this.1 j hj
          exact ⟨i', (List.mem_filter.mp hi').1, hm⟩
    · split at h
      · exact ih _ _ _ _ _ _ h hadd
      · rename_i i hfind
        split at h
        · cases h
        · have := ih _ _ _ _ _ _ h hadd
          refine ⟨?_, this.2⟩
          intro j hj
          obtain ⟨i', hi', hm⟩ := this.1 j hj
          simp only [List.mem_map] at hi'
          obtain ⟨i0, hi0, rfl⟩ := hi'
          refine ⟨i0, hi0, ?_⟩
          split at hm <;> simpa using hm

/-- **the guest memory stays the module's own**: an accepted module keeps exactly one defined
    memory, never turns an existing import into something of another kind or namespace, and
    everything the tool adds is imported from the provider namespace -/
theorem C07_memory_stays_own (m : Summary) (s : Summary) (h : apply m = .rewrite s) :
    s.ownMems = 1 ∧ m.ownMems = 1 ∧
    ∀ j ∈ s.imports, (∃ i ∈ m.imports, i.module = j.module ∧ i.kind = j.kind) ∨ j.module = provider := by
  unfold apply at h
  split at h
  · cases h
  · split at h
    · cases h
    · rename_i h2 h0
      split at h
      · cases h
      · split at h
        · cases h
        · split at h
          · cases h
          · rename_i imps added needMem hap
            simp only [Decision.rewrite.injEq] at h
            subst h
            have := applyPairs_modules _ _ _ _ _ _ _ hap (by intro a ha; cases ha)
            refine ⟨rfl, by omega, ?_⟩
            intro j hj
            simp only [List.mem_append] at hj
            rcases hj with (hj | hj) | hj
            · exact Or.inl (this.1 j hj)
            · exact Or.inr (this.2 j hj)
            · split at hj
              · simp at hj; subst hj; exact Or.inr rfl
              · cases hj

/-- in every module the real trampoline produced for the fixed family, memory 0 is the imported
    provider memory and memory 1 is still defined by the guest -/
theorem C07_emitted_memories : ∀ M ∈ glueModules, M.memsImported = [true, false] := by decide +kernel

/-- non-vacuity: a plain module with one memory, the log import and a foreign import is accepted,
    and ends up with three provider imports (renamed log provider function, memory) plus the foreign one -/
example : (match apply { ownMems := 1, imports := [
      { module := provider, name := nmLog, kind := 0, params := [0, 0], results := [] },
      { module := [101, 110, 118], name := [102], kind := 0 }] } with
    | .rewrite s => s.imports.length
    | _ => 0) = 3 := by decide +kernel

end SfVerif.Props.C07
