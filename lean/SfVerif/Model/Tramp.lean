import SfVerif.Gen.Abi
import SfVerif.Gen.AbiTool
/-! `trampoline/src/lib.rs`: the decision logic of `TrampolineCodegen::new` + `apply` over a module
    summary (its imports and the number of memories it defines). Tables come from Gen/Abi. -/
namespace SfVerif.Tramp
open SfVerif.Gen

/-- import kinds: 0 function, 1 memory, 2 global, 3 table, 4 other -/
structure Imp where
  module : List Nat
  name : List Nat
  kind : Nat
  params : List Nat := []
  results : List Nat := []
  deriving DecidableEq, Repr, Inhabited

structure Summary where
  ownMems : Nat
  imports : List Imp
  deriving Repr, Inhabited

/-- refusal classes: 0 multiple own memories, 1 unexpected import name, 2 unsupported API
    module version, 3 wrong signature of a string-carrying import, 4 not a function import -/
inductive Decision where
  | noop
  | reject (cls : Nat)
  | rewrite (s : Summary)
  deriving Repr, Inhabited

def provider : List Nat := moduleNameTrampoline
def versionPrefix : List Nat := [115, 104, 111, 112, 105, 102, 121, 95, 102, 117, 110, 99, 116, 105, 111, 110, 95, 118] -- "shopify_function_v"
def memoryName : List Nat := [109, 101, 109, 111, 114, 121]

/-- names the first scan tolerates in the API namespace -/
def knownName (n : List Nat) : Bool :=
  trampolineImportPairs.any (fun p => p.1 == n || (!p.2.isEmpty && p.2 == n)) || trampolineAllowList.contains n

def expectedSig? (n : List Nat) : Option (List Nat × List Nat) :=
  (trampolineExpectedSigs.find? (fun e => e.1 == n)).map (fun e => e.2)

/-- the provider imports a string-carrying import brings in (function imports, then the memory) -/
def addsFor (orig : List Nat) : List (List Nat) :=
  let n (s : List Nat) := s
  -- names as in the five `emit_*` functions
  let readStr : List Nat := [115, 104, 111, 112, 105, 102, 121, 95, 102, 117, 110, 99, 116, 105, 111, 110, 95, 105, 110, 112, 117, 116, 95, 114, 101, 97, 100, 95, 117, 116, 102, 56, 95, 115, 116, 114]
  let getProp : List Nat := [115, 104, 111, 112, 105, 102, 121, 95, 102, 117, 110, 99, 116, 105, 111, 110, 95, 105, 110, 112, 117, 116, 95, 103, 101, 116, 95, 111, 98, 106, 95, 112, 114, 111, 112]
  let addr : List Nat := [95, 115, 104, 111, 112, 105, 102, 121, 95, 102, 117, 110, 99, 116, 105, 111, 110, 95, 105, 110, 112, 117, 116, 95, 103, 101, 116, 95, 117, 116, 102, 56, 95, 115, 116, 114, 95, 97, 100, 100, 114]
  let alloc : List Nat := [95, 115, 104, 111, 112, 105, 102, 121, 95, 102, 117, 110, 99, 116, 105, 111, 110, 95, 97, 108, 108, 111, 99]
  if orig == readStr then [n addr]
  else if orig == getProp then [95 :: orig, alloc]
  else [95 :: orig]

def allocName : List Nat := [95, 115, 104, 111, 112, 105, 102, 121, 95, 102, 117, 110, 99, 116, 105, 111, 110, 95, 97, 108, 108, 111, 99]

/-- provider imports added for `k` occurrences of the string-carrying import `orig`: the
    per-occurrence ones `k` times, the allocator import (memoised in a `OnceCell`) once -/
def addsForOcc (orig : List Nat) (k : Nat) : List (List Nat) :=
  (List.replicate k ((addsFor orig).filter (· != allocName))).flatten ++
    (if (addsFor orig).contains allocName then [allocName] else [])

/-- is `i` a provider import named `n`? -/
def Imp.isApi (n : List Nat) (i : Imp) : Bool := i.module == provider && i.name == n

/-- one entry `(orig, new)` of the IMPORTS table; every occurrence of the import is handled
    (a module may import the same function more than once — F11 repair) -/
def stepOne (orig new : List Nat) (imps added : List Imp) (needMem : Bool) : Except Nat (List Imp × List Imp × Bool) :=
  match expectedSig? orig with
  | some (ps, rs) =>
    -- a string-carrying import: every function import of that name is checked and replaced by
    -- glue; an import of that name that is not a function is left alone
    let occ := imps.filter (fun i => i.isApi orig && i.kind == 0)
    if occ.any (fun i => i.params ≠ ps ∨ i.results ≠ rs) then .error 3
    else if occ.isEmpty then .ok (imps, added, needMem)
    else
      .ok (imps.filter (fun i => !(i.isApi orig && i.kind == 0)),
           added ++ (addsForOcc orig occ.length).map (fun a => { module := provider, name := a, kind := 0 }),
           true)
  | none =>
    -- renamed in place, provided every import of that name is a function
    if imps.any (fun i => i.isApi orig && i.kind != 0) then .error 4
    else .ok (imps.map (fun j => if j.isApi orig then { j with name := new } else j), added, needMem)

/-- step through the IMPORTS table in source order -/
def applyPairs : List (List Nat × List Nat) → List Imp → List Imp → Bool → Except Nat (List Imp × List Imp × Bool)
  | [], imps, added, needMem => .ok (imps, added, needMem)
  | (orig, new) :: rest, imps, added, needMem =>
    match stepOne orig new imps added needMem with
    | .error c => .error c
    | .ok (imps', added', needMem') => applyPairs rest imps' added' needMem'

/-- `TrampolineCodegen::new(module)?.apply()` -/
def apply (m : Summary) : Decision :=
  if m.ownMems ≥ 2 then .reject 0
  else if m.ownMems = 0 then .noop
  else if m.imports.any (fun i => i.module == provider && !knownName i.name) then .reject 1
  else if m.imports.any (fun i => versionPrefix.isPrefixOf i.module && i.module != provider) then .reject 2
  else
    match applyPairs trampolineImportPairs m.imports [] false with
    | .error c => .reject c
    | .ok (imps, added, needMem) =>
      .rewrite { ownMems := 1,
                 imports := imps ++ added ++ (if needMem then [{ module := provider, name := memoryName, kind := 1 }] else []) }

end SfVerif.Tramp
