import SfVerif.Model.Prelude
/-! A mini-Wasm: exactly the instruction subset the trampoline emits, with two linear memories
    (index 0 = the imported provider memory, index 1 = the guest's own memory in every rewritten
    module), calls to imports answered by a `Host`, traps on out-of-bounds accesses.
    Values are naturals (an i32 is `< 2^32`, an i64 and an f64 bit pattern `< 2^64`). -/
namespace SfVerif.Wasm

inductive V where
  | i32 (x : Nat)
  | i64 (x : Nat)
  | f64 (x : Nat)
  deriving DecidableEq, Repr, Inhabited

structure Mem where
  size : Nat
  byte : Nat → UInt8

inductive Instr where
  | localGet (i : Nat)
  | localSet (i : Nat)
  | localTee (i : Nat)
  | call (f : Nat)
  | i32Load (mem off : Nat)
  | i32Add
  | i32Ne
  | i64Const (n : Nat)
  | i64ShrU
  | i32WrapI64
  | memCopy (dst src : Nat)
  | ifElse (t e : List Instr)
  | other (name : List Nat)        -- any instruction outside the subset (only in guest code)
  deriving Repr, Inhabited

/-- value types: 0 i32, 1 i64, 2 f32, 3 f64 -/
structure Func where
  params : List Nat
  results : List Nat
  locals : List Nat
  body : Option (List Instr)                 -- `none` = import
  imp : Option (List Nat × List Nat)         -- import (module name, field name)
  deriving Repr, Inhabited

structure Module where
  funcs : List Func
  memsImported : List Bool
  apiExports : List (Nat × Nat)              -- (index into the API table, function index)
  deriving Repr, Inhabited

/-- the provider's side of an imported function: field name, arguments, provider memory ↦
    results and new provider memory (it has no access to the guest's memory) -/
abbrev Host := List Nat → List V → Mem → Option (List V × Mem)

structure St where
  prov : Mem
  guest : Mem
  stack : List V
  locals : List V
  calls : List (List Nat × List V)           -- host calls made so far (most recent first)

inductive Res (α : Type) where
  | ok (a : α)
  | trap
  | fuel
  deriving Inhabited

/-- `memory.copy` between (possibly equal) memories: traps when either range leaves its memory -/
def Mem.copyFrom (d s : Mem) (da sa n : Nat) : Option Mem :=
  if sa + n ≤ s.size ∧ da + n ≤ d.size then
    some { d with byte := fun a => if da ≤ a ∧ a < da + n then s.byte (sa + (a - da)) else d.byte a }
  else none

/-- little-endian `i32.load` -/
def Mem.load32 (m : Mem) (a : Nat) : Option Nat :=
  if a + 4 ≤ m.size then
    some ((m.byte a).toNat + (m.byte (a + 1)).toNat * 256 + (m.byte (a + 2)).toNat * 65536 +
      (m.byte (a + 3)).toNat * 16777216)
  else none

def zeroOf (t : Nat) : V := if t = 1 then .i64 0 else if t = 3 then .f64 0 else .i32 0

def St.mem (s : St) (i : Nat) : Option Mem := if i = 0 then some s.prov else if i = 1 then some s.guest else none

def St.setMem (s : St) (i : Nat) (m : Mem) : St :=
  if i = 0 then { s with prov := m } else { s with guest := m }

mutual
def execList (host : Host) (fs : List Func) (fuel : Nat) : List Instr → St → Res St
  | [], s => .ok s
  | i :: is, s =>
    match exec host fs fuel i s with
    | .ok s' => execList host fs fuel is s'
    | .trap => .trap
    | .fuel => .fuel
def exec (host : Host) (fs : List Func) (fuel : Nat) : Instr → St → Res St
  | .localGet i, s =>
    (match s.locals[i]? with
     | some v => .ok { s with stack := v :: s.stack }
     | none => .trap)
  | .localSet i, s =>
    (match s.stack with
     | v :: st => .ok { s with stack := st, locals := s.locals.set i v }
     | _ => .trap)
  | .localTee i, s =>
    (match s.stack with
     | v :: st => .ok { s with stack := v :: st, locals := s.locals.set i v }
     | _ => .trap)
  | .i32Add, s =>
    (match s.stack with
     | .i32 b :: .i32 a :: st => .ok { s with stack := .i32 ((a + b) % 2 ^ 32) :: st }
     | _ => .trap)
  | .i32Ne, s =>
    (match s.stack with
     | .i32 b :: .i32 a :: st => .ok { s with stack := .i32 (if a ≠ b then 1 else 0) :: st }
     | _ => .trap)
  | .i64Const n, s => .ok { s with stack := .i64 n :: s.stack }
  | .i64ShrU, s =>
    (match s.stack with
     | .i64 b :: .i64 a :: st => .ok { s with stack := .i64 (a / 2 ^ (b % 64)) :: st }
     | _ => .trap)
  | .i32WrapI64, s =>
    (match s.stack with
     | .i64 a :: st => .ok { s with stack := .i32 (a % 2 ^ 32) :: st }
     | _ => .trap)
  | .i32Load m off, s =>
    (match s.stack with
     | .i32 a :: st =>
       (match s.mem m with
        | some mem =>
          (match mem.load32 (a + off) with
           | some v => .ok { s with stack := .i32 v :: st }
           | none => .trap)
        | none => .trap)
     | _ => .trap)
  | .memCopy d sIdx, s =>
    (match s.stack with
     | .i32 n :: .i32 sa :: .i32 da :: st =>
       (match s.mem d, s.mem sIdx with
        | some dm, some sm =>
          (match Mem.copyFrom dm sm da sa n with
           | some dm' => .ok ({ s with stack := st }.setMem d dm')
           | none => .trap)
        | _, _ => .trap)
     | _ => .trap)
  | .ifElse t e, s =>
    (match s.stack with
     | .i32 c :: st =>
       if c ≠ 0 then execList host fs fuel t { s with stack := st }
       else execList host fs fuel e { s with stack := st }
     | _ => .trap)
  | .other _, _ => .trap
  | .call f, s =>
    (match fuel with
     | 0 => .fuel
     | fuel + 1 =>
       match fs[f]? with
       | none => .trap
       | some fn =>
         if s.stack.length < fn.params.length then .trap else
         let args := (s.stack.take fn.params.length).reverse
         let rest := s.stack.drop fn.params.length
         match fn.body with
         | none =>
           (match fn.imp with
            | none => .trap
            | some (_, name) =>
              match host name args s.prov with
              | some (rs, prov') =>
                .ok { s with stack := rs.reverse ++ rest, prov := prov', calls := (name, args) :: s.calls }
              | none => .trap)
         | some body =>
           match execList host fs fuel body
               { s with stack := [], locals := args ++ fn.locals.map zeroOf } with
           | .ok s' => .ok { s' with stack := s'.stack ++ rest, locals := s.locals }
           | .trap => .trap
           | .fuel => .fuel)
end

end SfVerif.Wasm
