import SfVerif.Model.MsgPack
import SfVerif.Gen.Enums
/-! `provider/src/write/state.rs` and `provider/src/write.rs`: the write state machine and the
    encoder. Each call consults the state machine first and appends bytes only when it said `Ok`. -/
namespace SfVerif
open SfVerif.Gen

/-- `State` -/
inductive WState where
  | start
  | obj (length numInserted : Nat)
  | arr (length numInserted : Nat)
  | done
  deriving DecidableEq, Repr, Inhabited

structure Writer where
  out : Array UInt8 := #[]
  st : WState := .start
  stack : List WState := []      -- `write_parent_state_stack`, top first
  deriving Repr, Inhabited

namespace WState

/-- `ObjectState::write_string` -/
def objWriteString (length n : Nat) : WState × Nat :=
  if n / 2 ≥ length then (.obj length n, WriteResult_ObjectLengthError)
  else (.obj length (n + 1), WriteResult_Ok)

/-- `ObjectState::write_non_string_value` -/
def objWriteNonString (length n : Nat) : WState × Nat :=
  if n % 2 = 0 then (.obj length n, WriteResult_ExpectedKey)
  else (.obj length (n + 1), WriteResult_Ok)

/-- `ArrayState::write_value` -/
def arrWriteValue (length n : Nat) : WState × Nat :=
  if n ≥ length then (.arr length n, WriteResult_ArrayLengthError)
  else (.arr length (n + 1), WriteResult_Ok)

/-- `State::write_string` -/
def writeString : WState → WState × Nat
  | .start => (.done, WriteResult_Ok)
  | .obj l n => objWriteString l n
  | .arr l n => arrWriteValue l n
  | .done => (.done, WriteResult_ValueAlreadyWritten)

/-- `State::write_non_string_scalar` -/
def writeNonStringScalar : WState → WState × Nat
  | .start => (.done, WriteResult_Ok)
  | .obj l n => objWriteNonString l n
  | .arr l n => arrWriteValue l n
  | .done => (.done, WriteResult_ValueAlreadyWritten)

/-- `State::start_object` / `start_array` (`new` is the freshly opened container's state) -/
def startContainer (new : WState) (st : WState) (stack : List WState) : WState × List WState × Nat :=
  match st with
  | .start => (new, stack, WriteResult_Ok)
  | .obj l n =>
    (match objWriteNonString l n with
     | (st', r) => if r ≠ WriteResult_Ok then (st', stack, r) else (new, st' :: stack, WriteResult_Ok))
  | .arr l n =>
    (match arrWriteValue l n with
     | (st', r) => if r ≠ WriteResult_Ok then (st', stack, r) else (new, st' :: stack, WriteResult_Ok))
  | .done => (.done, stack, WriteResult_ValueAlreadyWritten)

/-- `parent_state_stack.pop().unwrap_or(State::End)` -/
def popOrDone : List WState → WState × List WState
  | [] => (.done, [])
  | s :: rest => (s, rest)

/-- `State::finish_object` (F1 repair: compares without multiplying) -/
def finishObject (st : WState) (stack : List WState) : WState × List WState × Nat :=
  match st with
  | .obj l n =>
    if n % 2 ≠ 0 ∨ n / 2 ≠ l then (st, stack, WriteResult_ObjectLengthError)
    else let (s, rest) := popOrDone stack; (s, rest, WriteResult_Ok)
  | _ => (st, stack, WriteResult_NotAnObject)

/-- `State::finish_array` -/
def finishArray (st : WState) (stack : List WState) : WState × List WState × Nat :=
  match st with
  | .arr l n =>
    if n ≠ l then (st, stack, WriteResult_ArrayLengthError)
    else let (s, rest) := popOrDone stack; (s, rest, WriteResult_Ok)
  | _ => (st, stack, WriteResult_NotAnArray)

end WState

/-- the ten write operations at provider level (`strAlloc` is the provider half of a string
    write: header plus `len` zero bytes; the copy is the caller's half) -/
inductive WOp where
  | bool (v : Bool)
  | null
  | i32 (z : Int)
  | f64 (bits : Nat)
  | strAlloc (len : Nat)
  | obj (len : Nat)
  | endObj
  | arr (len : Nat)
  | endArr
  deriving DecidableEq, Repr

namespace Writer

def appendBytes (w : Writer) (bs : List UInt8) : Writer := { w with out := w.out ++ bs.toArray }

/-- one provider write call: (new writer, status, destination offset for `strAlloc`) -/
def step (w : Writer) : WOp → Writer × Nat × Option Nat
  | .bool v =>
    let (st, r) := w.st.writeNonStringScalar
    if r ≠ WriteResult_Ok then ({ w with st := st }, r, none)
    else (({ w with st := st }).appendBytes (encBool v), r, none)
  | .null =>
    let (st, r) := w.st.writeNonStringScalar
    if r ≠ WriteResult_Ok then ({ w with st := st }, r, none)
    else (({ w with st := st }).appendBytes encNil, r, none)
  | .i32 z =>
    let (st, r) := w.st.writeNonStringScalar
    if r ≠ WriteResult_Ok then ({ w with st := st }, r, none)
    else (({ w with st := st }).appendBytes (encSint z), r, none)
  | .f64 bits =>
    let (st, r) := w.st.writeNonStringScalar
    if r ≠ WriteResult_Ok then ({ w with st := st }, r, none)
    else (({ w with st := st }).appendBytes (encF64 bits), r, none)
  | .strAlloc len =>
    let (st, r) := w.st.writeString
    if r ≠ WriteResult_Ok then ({ w with st := st }, r, none)
    else
      let w1 := ({ w with st := st }).appendBytes (encStrLen len)
      let off := w1.out.size
      ({ w1 with out := w1.out ++ Array.replicate len 0 }, r, some off)
  | .obj len =>
    let (st, stack, r) := WState.startContainer (.obj len 0) w.st w.stack
    if r ≠ WriteResult_Ok then ({ w with st := st, stack := stack }, r, none)
    else (({ w with st := st, stack := stack }).appendBytes (encMapLen len), r, none)
  | .endObj =>
    let (st, stack, r) := WState.finishObject w.st w.stack
    ({ w with st := st, stack := stack }, r, none)
  | .arr len =>
    let (st, stack, r) := WState.startContainer (.arr len 0) w.st w.stack
    if r ≠ WriteResult_Ok then ({ w with st := st, stack := stack }, r, none)
    else (({ w with st := st, stack := stack }).appendBytes (encArrLen len), r, none)
  | .endArr =>
    let (st, stack, r) := WState.finishArray w.st w.stack
    ({ w with st := st, stack := stack }, r, none)

/-- the caller's half of a string write: copy `bs` to offset `off` -/
def copyAt (w : Writer) (off : Nat) (bs : Bytes) : Writer :=
  { w with out := blitAt w.out off bs }

/-- a whole string write as the native glue / the trampoline performs it: copy iff `Ok` -/
def writeStr (w : Writer) (bs : Bytes) : Writer × Nat :=
  match w.step (.strAlloc bs.size) with
  | (w', r, some off) => (w'.copyAt off bs, r)
  | (w', r, none) => (w', r)

/-- `shopify_function_output_finalize_and_return_msgpack_bytes` -/
def finalize (w : Writer) : Nat × Bytes :=
  if w.st ≠ .done then (WriteResult_ValueNotFinished, #[]) else (WriteResult_Ok, w.out)

end Writer
end SfVerif
