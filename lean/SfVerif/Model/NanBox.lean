import SfVerif.Gen.Consts
import SfVerif.Gen.Enums
import SfVerif.Model.F64
/-! `core/src/read.rs`: NaN-boxed values over the regenerated constants, for a pointer width `w`
    (a `Val` is a natural number below `2^(2w)`). -/
namespace SfVerif.NanBox
open SfVerif.Gen

/-- `ValueRef` -/
inductive Ref where
  | null
  | bool (b : Bool)
  | number (bits : Nat)
  | string (ptr len : Nat)
  | object (ptr len : Nat)
  | array (ptr len : Nat)
  | error (code : Nat)
  deriving DecidableEq, Repr, Inhabited

/-- outcome of `try_decode` -/
inductive Decoded where
  | ok (r : Ref)
  | decodeError
  | panic
  deriving DecidableEq, Repr, Inhabited

/-- `NanBox::encode(ptr, len, tag)` -/
def encode (w ptr len tag : Nat) : Nat :=
  let trimmed := min len (MAX_VALUE_LENGTH w)
  let val := (trimmed <<< VALUE_ENCODING_SIZE w) ||| (ptr &&& POINTER_MASK w)
  NAN_MASK w ||| (tag <<< VALUE_SIZE w) ||| val

def null (w : Nat) : Nat := encode w 0 0 Tag_Null
def bool (w : Nat) (b : Bool) : Nat := encode w (if b then 1 else 0) 0 Tag_Bool
def string (w ptr len : Nat) : Nat := encode w ptr len Tag_String
def obj (w ptr len : Nat) : Nat := encode w ptr len Tag_Object
def array (w ptr len : Nat) : Nat := encode w ptr len Tag_Array
def error (w code : Nat) : Nat := encode w code 0 Tag_Error
/-- `NanBox::number` (the `assert!(!is_nan)` is the caller's obligation; `none` = assertion failure) -/
def number (w bits : Nat) : Option Nat :=
  if F64.isNaN bits then none else some (bits <<< F64_OFFSET w)

def knownTag (t : Nat) : Bool :=
  t == Tag_Null || t == Tag_Bool || t == Tag_Number || t == Tag_String || t == Tag_Object ||
  t == Tag_Array || t == Tag_Error

/-- `ErrorCode::from_repr(val).unwrap_or(Unknown)` rendered as the code printed by the harness -/
def errorCodeOf (val : Nat) : Nat := if val < ErrorCode_Unknown then val else ErrorCode_Unknown

/-- `NanBox::try_decode` -/
def tryDecode (w v : Nat) : Decoded :=
  if v &&& NAN_MASK w ≠ NAN_MASK w then
    .ok (.number ((v >>> F64_OFFSET w) % 2 ^ 64))
  else
    let val := v &&& VALUE_MASK w
    let ptr := val &&& POINTER_MASK w
    let len := (val >>> VALUE_ENCODING_SIZE w) % 2 ^ w
    let tag := (v &&& PAYLOAD_MASK w) >>> VALUE_SIZE w
    if tag = Tag_Bool then .ok (.bool (ptr != 0))
    else if tag = Tag_Null then .ok .null
    else if tag = Tag_Number then .decodeError      -- F2 repair: was `unreachable!`
    else if tag = Tag_Array then .ok (.array ptr len)
    else if tag = Tag_String then .ok (.string ptr len)
    else if tag = Tag_Object then .ok (.object ptr len)
    else if tag = Tag_Error then .ok (.error (errorCodeOf (val % 2 ^ w)))
    else .decodeError

end SfVerif.NanBox
