import SfVerif.Model.Typed
import SfVerif.Model.Doc
/-! The line protocol on the model side: one OS thread's view (`Thread`), a system of threads
    (`Sys`), parsed operations (`Op`) and the canonical answer text. The harness (`/verif/harness/sfh`)
    prints the same text for the real crates; the two streams are compared line by line. -/
namespace SfVerif
open SfVerif.Gen

/-! ### text helpers -/

def hexDigit (n : Nat) : Char :=
  if n < 10 then Char.ofNat (48 + n) else Char.ofNat (87 + n)

def hexNatAux : Nat → Nat → List Char → List Char
  | 0, _, acc => acc
  | fuel+1, n, acc => if n = 0 then acc else hexNatAux fuel (n / 16) (hexDigit (n % 16) :: acc)

/-- lower-case hex, at least `width` digits -/
def hexNat (n width : Nat) : String :=
  let ds := hexNatAux 64 n []
  let ds := if ds.isEmpty then ['0'] else ds
  String.ofList (List.replicate (width - ds.length) '0' ++ ds)

def hexBytes (bs : Bytes) : String :=
  String.ofList (bs.toList.flatMap (fun b => [hexDigit (b.toNat / 16), hexDigit (b.toNat % 16)]))

def hex0 (bs : Bytes) : String := if bs.isEmpty then "-" else hexBytes bs

def fnv64 (bs : Bytes) : Nat :=
  (bs.foldl (fun (h : UInt64) b => (h ^^^ b.toUInt64) * 0x100000001b3) 0xcbf29ce484222325).toNat

def showBytes (bs : Bytes) : String :=
  if bs.size ≤ 96 then s!"{bs.size}:{hex0 bs}" else s!"{bs.size}:#{hexNat (fnv64 bs) 16}"

/-- the deterministic message of `log <len> <seed>` -/
def msgBytes (len seed : Nat) : Bytes :=
  Array.ofFn (n := len) (fun i =>
    if seed < 1000 then UInt8.ofNat (32 + (seed + i.val * 7 + i.val / 89) % 95)
    else
      -- multi-byte text: `seed % 3` ASCII letters, three-byte characters (U+20AC) while they fit, ASCII padding
      let lead := seed % 3
      if i.val < lead then 97
      else
        let j := i.val - lead
        let full := (len - lead) / 3 * 3
        if j < full then (if j % 3 = 0 then 0xe2 else if j % 3 = 1 then 0x82 else 0xac) else 122)


/-! ### canonical text of documents and typed values -/

def sortStrings (xs : List String) : List String := xs.mergeSort (fun a b => decide (a ≤ b))

mutual
/-- `show_doc` of the harness (`sortMaps`: map pairs sorted by their rendered text) -/
def showDoc (sortMaps : Bool) : Doc → String
  | .nil => "nil"
  | .bool b => if b then "t" else "f"
  | .int z => s!"i{z}"
  | .f32 b => s!"g{hexNat b 8}"
  | .f64 b => s!"d{hexNat b 16}"
  | .str bs => s!"s{hex0 bs}"
  | .arr xs => "[" ++ ",".intercalate (showDocs sortMaps xs) ++ "]"
  | .map ps =>
    let items := showDocPairs sortMaps ps
    "{" ++ ",".intercalate (if sortMaps then sortStrings items else items) ++ "}"
def showDocs (sortMaps : Bool) : List Doc → List String
  | [] => []
  | d :: ds => showDoc sortMaps d :: showDocs sortMaps ds
def showDocPairs (sortMaps : Bool) : List (Doc × Doc) → List String
  | [] => []
  | (k, v) :: ps => (showDoc sortMaps k ++ ":" ++ showDoc sortMaps v) :: showDocPairs sortMaps ps
end

/-- later insertions of an equal key overwrite earlier ones (what a map's `insert` does) -/
def dedupLast : List (String × String) → List (String × String)
  | [] => []
  | (k, v) :: rest => if rest.any (fun p => p.1 == k) then dedupLast rest else (k, v) :: dedupLast rest

mutual
/-- canonical value syntax shared with the harness (`TV::show`); maps sorted by key -/
def showTVal : TVal → String
  | .unit => "u"
  | .bool b => if b then "b1" else "b0"
  | .int z => s!"i{z}"
  | .f64 b => s!"f{hexNat b 16}"
  | .str bs => s!"s{hexBytes bs}"
  | .chr bs => s!"c{hexBytes bs}"
  | .none => "N"
  | .some v => "S" ++ showTVal v
  | .seq vs => "[" ++ ";".intercalate (showTVals vs) ++ "]"
  | .tup vs => "(" ++ ";".intercalate (showTVals vs) ++ ")"
  | .map ps =>
    let items := dedupLast (showTPairs ps)
    let sorted := items.mergeSort (fun a b => decide (a.1 ≤ b.1))
    "{" ++ ";".intercalate (sorted.map (fun p => p.1 ++ "=" ++ p.2)) ++ "}"
def showTVals : List TVal → List String
  | [] => []
  | v :: vs => showTVal v :: showTVals vs
def showTPairs : List (Bytes × TVal) → List (String × String)
  | [] => []
  | (k, v) :: ps => (hexBytes k, showTVal v) :: showTPairs ps
end

/-- deserialise the root of a freshly initialised context as `ty` -/
def deRoot (c : Ctx) (ty : Ty) : Ctx × String :=
  let (c1, v) := c.inputGet
  match deTy c1 ty v with
  | (c2, some x) => (c2, s!"ok {showTVal x}")
  | (c2, none) => (c2, "invalid-type")

/-! ### one thread -/

structure Thread where
  ctx : Ctx := {}
  handles : Array Handle := #[]              -- protocol numbering: order of first exposure
  lastAlloc : Option (Nat × Nat) := none     -- destination and length of the last accepted string allocation
  logArea : Option Plan := none              -- this thread's return area for log plans
  lastIntern : Option (Nat × Nat) := none    -- destination and length of the last intern request
  cache : List (Bytes × Nat) := []           -- the api crate's thread-local id cache
  deriving Inhabited

inductive ScopeTok where
  | h (k : Nat) | null | b0 | b1 | num (bits : Nat) | err (c : Nat)
  | zs (len : Nat) | zo (len : Nat) | za (len : Nat) | raw (v : Nat)
  deriving Repr, Inhabited

inductive WTok where
  | bool (n : Nat) | null | i32 (z : Int) | f64 (bits : Nat) | str (bs : Bytes)
  | alloc (n : Nat) | copy (bs : Bytes) | istr (id : Nat)
  | obj (n : Nat) | endobj | arr (n : Nat) | endarr
  deriving Repr, Inhabited

inductive Op where
  | width (w : Nat)
  | init (bs : Bytes) | root
  | prop (s : ScopeTok) (q : Bytes) | iprop (s : ScopeTok) (id : Nat)
  | idx (s : ScopeTok) (i : Nat) | key (s : ScopeTok) (i : Nat)
  | len (s : ScopeTok) | str (s : ScopeTok)
  | akind (s : ScopeTok) | alen (s : ScopeTok) | astr (s : ScopeTok) | akey (s : ScopeTok) (i : Nat)
  | w (api : Bool) (t : WTok) | fin | outq | outdoc
  | log (len seed : Nat) | logreq (n : Nat) | logcopy (len seed : Nat) | logsq
  | intern (bs : Bytes) | internreq (n : Nat) | interncopy (bs : Bytes) | cached (bs : Bytes)
  | boxPtr (kind : Nat) (ptr len : Nat) | boxBool (b : Bool) | boxNull | boxErr (c : Nat) | boxNum (bits : Nat)
  | unbox (v : Nat) | maxlen
  | deint (ty : Ty) (bits : Nat) | serrt (v : TVal) (dety : Ty) | de (ty : Ty) (doc : Bytes)
  | bad
  deriving Inhabited

namespace Thread

/-- protocol number of a handle: order of first exposure -/
def register (t : Thread) (h : Handle) : Thread × Nat :=
  match t.handles.findIdx? (· == h) with
  | some k => (t, k)
  | none => ({ t with handles := t.handles.push h }, t.handles.size)

/-- canonical rendering of a returned value (`fmtval` of the harness) -/
def fmtVal (w : Nat) (t : Thread) : RVal → Thread × String
  | .null => (t, "null")
  | .bool b => (t, s!"bool {if b then 1 else 0}")
  | .num bits => (t, s!"num {hexNat bits 16}")
  | .err c => (t, s!"err {c}")
  | .str h l => let (t', k) := t.register h; (t', s!"str h{k} {min l (MAX_VALUE_LENGTH w)}")
  | .arr h l => let (t', k) := t.register h; (t', s!"arr h{k} {min l (MAX_VALUE_LENGTH w)}")
  | .obj h l => let (t', k) := t.register h; (t', s!"obj h{k} {min l (MAX_VALUE_LENGTH w)}")

/-- the bits a scope token stands for, decoded as the provider decodes them -/
def scopeOf (w : Nat) (t : Thread) : ScopeTok → Option Scope
  | .h k => (t.handles[k]?).map Scope.node
  | .null => some (.lit (.ok .null))
  | .b0 => some (.lit (.ok (.bool false)))
  | .b1 => some (.lit (.ok (.bool true)))
  | .num bits => if F64.isNaN bits then none else some (.lit (.ok (.number bits)))
  | .err c => if c < 8 then some (.lit (.ok (.error c))) else none
  | .zs l => some (.lit (.ok (.string 0 (min l (MAX_VALUE_LENGTH w)))))
  | .zo l => some (.lit (.ok (.object 0 (min l (MAX_VALUE_LENGTH w)))))
  | .za l => some (.lit (.ok (.array 0 (min l (MAX_VALUE_LENGTH w)))))
  | .raw v =>
    match NanBox.tryDecode w v with
    | .ok (.string p _) => if p = 0 then some (.lit (NanBox.tryDecode w v)) else none
    | .ok (.object p _) => if p = 0 then some (.lit (NanBox.tryDecode w v)) else none
    | .ok (.array p _) => if p = 0 then some (.lit (NanBox.tryDecode w v)) else none
    | d => some (.lit d)

/-- what `try_decode` yields for the box behind a scope (kind, inline length) -/
inductive Seen where
  | null | bool (b : Bool) | num (bits : Nat) | err (c : Nat)
  | str (h : Option Handle) (inl : Nat) | arr (h : Option Handle) (inl : Nat) | obj (h : Option Handle) (inl : Nat)
  | undecodable

def seen (w : Nat) (t : Thread) : Scope → Seen
  | .node h =>
    (match t.ctx.nodeAt? h with
     | some (.scalar (.str _ l)) => .str (some h) (min l (MAX_VALUE_LENGTH w))
     | some (.arr l _ _) => .arr (some h) (min l (MAX_VALUE_LENGTH w))
     | some (.obj l _ _) => .obj (some h) (min l (MAX_VALUE_LENGTH w))
     | _ => .undecodable)
  | .lit (.ok .null) => .null
  | .lit (.ok (.bool b)) => .bool b
  | .lit (.ok (.number b)) => .num b
  | .lit (.ok (.error c)) => .err c
  | .lit (.ok (.string _ l)) => .str none l
  | .lit (.ok (.array _ l)) => .arr none l
  | .lit (.ok (.object _ l)) => .obj none l
  | .lit _ => .undecodable

def optNat : Option Nat → String
  | some n => toString n
  | none => "-"

/-- `Value::array_len` / `obj_len`: inline length, or the length query when the field is saturated -/
def apiLen (w : Nat) (t : Thread) (s : Scope) (inl : Nat) : Option Nat :=
  if inl = MAX_VALUE_LENGTH w then t.ctx.getValLen s else some inl

def wstatus (r : Nat) : String := toString r

/-- run one protocol operation on this thread (`w` = pointer width) -/
def step (w : Nat) (t : Thread) : Op → Thread × String
  | .bad => (t, "bad-op")
  | .width n => (t, if n = w then s!"width {n}" else s!"width-mismatch model={w}")
  | .init bs =>
    ({ t with ctx := t.ctx.reinit bs, handles := #[], lastAlloc := none, logArea := none }, "ok")
  | .root =>
    let (c, v) := t.ctx.inputGet
    fmtVal w { t with ctx := c } v
  | .prop s q =>
    (match scopeOf w t s with
     | none => (t, "bad-op")
     | some sc => let (c, v) := t.ctx.getObjProp sc q; fmtVal w { t with ctx := c } v)
  | .iprop s id =>
    (match scopeOf w t s with
     | none => (t, "bad-op")
     | some sc =>
       match t.ctx.getInternedObjProp sc id with
       | none => (t, "PANIC")
       | some (c, v) => fmtVal w { t with ctx := c } v)
  | .idx s i =>
    (match scopeOf w t s with
     | none => (t, "bad-op")
     | some sc => let (c, v) := t.ctx.getAtIndex sc i; fmtVal w { t with ctx := c } v)
  | .key s i =>
    (match scopeOf w t s with
     | none => (t, "bad-op")
     | some sc => let (c, v) := t.ctx.getKeyAtIndex sc i; fmtVal w { t with ctx := c } v)
  | .len s =>
    (match scopeOf w t s with
     | none => (t, "bad-op")
     | some sc => (t, match t.ctx.getValLen sc with | some n => toString n | none => "-1"))
  | .str s =>
    (match scopeOf w t s with
     | none => (t, "bad-op")
     | some sc =>
       match sc with
       | .node h =>
         (match t.ctx.strOffset h, t.ctx.stringAt h with
          | some off, some bs => (t, s!"s off={off} {showBytes bs}")
          | _, _ => (t, "nostr"))
       | _ => (t, "nostr"))
  | .akind s =>
    (match scopeOf w t s with
     | none => (t, "bad-op")
     | some sc =>
       let sn := seen w t sc
       let b := match sn with | .bool b => (if b then "1" else "0") | _ => "-"
       let nl := match sn with | .null => "1" | _ => "0"
       let nm := match sn with | .num bits => hexNat bits 16 | _ => "-"
       let ob := match sn with | .obj _ _ => "1" | _ => "0"
       let ar := match sn with | .arr _ _ => "1" | _ => "0"
       let er := match sn with | .err c => toString c | _ => "-"
       (t, s!"bool={b} null={nl} num={nm} obj={ob} arr={ar} err={er}"))
  | .alen s =>
    (match scopeOf w t s with
     | none => (t, "bad-op")
     | some sc =>
       let sn := seen w t sc
       let al := match sn with | .arr _ inl => apiLen w t sc inl | _ => none
       let ol := match sn with | .obj _ inl => apiLen w t sc inl | _ => none
       (t, s!"alen={optNat al} olen={optNat ol}"))
  | .astr s =>
    (match scopeOf w t s with
     | none => (t, "bad-op")
     | some sc =>
       match sc with
       | .node h =>
         (match t.ctx.stringAt h with
          | some bs => (t, s!"some {showBytes bs}")
          | none => (t, "none"))
       | .lit (.ok (.string _ _)) => (t, "bad-op")     -- a null string pointer is never dereferenced by the harness
       | _ => (t, "none"))
  | .akey s i =>
    (match scopeOf w t s with
     | none => (t, "bad-op")
     | some sc =>
       match seen w t sc with
       | .obj _ _ =>
         let (c, v) := t.ctx.getKeyAtIndex sc i
         let t' := { t with ctx := c }
         (match v with
          | .str h _ =>
            (match c.stringAt h with
             | some bs => (t', s!"some {showBytes bs}")
             | none => (t', "none"))
          | _ => (t', "none"))
       | _ => (t, "none"))
  | .w api tok =>
    let run (op : WOp) : Thread × String :=
      let (wr, r, _) := t.ctx.writer.step op
      ({ t with ctx := { t.ctx with writer := wr } }, wstatus r)
    (match tok with
     | .bool n => if api && n > 1 then (t, "bad-op") else run (.bool (n != 0))
     | .null => run .null
     | .i32 z => run (.i32 z)
     | .f64 bits => run (.f64 bits)
     | .str bs =>
       let (wr, r) := t.ctx.writer.writeStr bs
       ({ t with ctx := { t.ctx with writer := wr } }, wstatus r)
     | .alloc n =>
       let (wr, r, off) := t.ctx.writer.step (.strAlloc n)
       ({ t with ctx := { t.ctx with writer := wr }, lastAlloc := off.map (fun o => (o, n)) },
        s!"{r} {if off.isSome then "dst" else "null"}")
     | .copy bs =>
       (match t.lastAlloc with
        | none => (t, "no-dst")
        | some (off, n) =>
          if bs.size > n then (t, "copy-too-long") else
          ({ t with ctx := { t.ctx with writer := t.ctx.writer.copyAt off bs }, lastAlloc := none }, "ok"))
     | .istr id =>
       (match t.ctx.interner.get? id with
        | none => (t, "PANIC")
        | some bs =>
          let (wr, r) := t.ctx.writer.writeStr bs
          ({ t with ctx := { t.ctx with writer := wr } }, wstatus r))
     | .obj n => run (.obj n)
     | .endobj => run .endObj
     | .arr n => run (.arr n)
     | .endarr => run .endArr)
  | .fin =>
    let (r, bs) := t.ctx.writer.finalize
    (t, s!"{r} {showBytes bs}")
  | .outq => (t, showBytes t.ctx.writer.out)
  | .outdoc =>
    (t, match decodeAll t.ctx.writer.out with
        | some d => s!"doc {showDoc false d}"
        | none => "not-a-document")
  | .log len seed =>
    let msg := (msgBytes len seed).toList
    let (l', p) := Logs.append LOG_CAPACITY t.ctx.logs len
    ({ t with ctx := { t.ctx with logs := Logs.applyPlan l' msg p }, logArea := some p }, "ok")
  | .logreq n =>
    let (l', p) := Logs.append LOG_CAPACITY t.ctx.logs n
    let d2 := match p.dst2 with | some d => toString d | none => "null"
    ({ t with ctx := { t.ctx with logs := l' }, logArea := some p },
     s!"plan {p.src} {p.dst1} {p.len1} {d2} {p.len2}")
  | .logcopy len seed =>
    (match t.logArea with
     | none => (t, "no-plan")
     | some p =>
       let d2 := match p.dst2 with | some d => toString d | none => "null"
       let shown := s!"{p.src} {p.dst1} {p.len1} {d2} {p.len2}"
       if p.src + p.len1 + p.len2 > len then (t, s!"copied {shown} REFUSED-UNSAFE")
       else
         ({ t with ctx := { t.ctx with logs := Logs.applyPlan t.ctx.logs (msgBytes len seed).toList p } },
          s!"copied {shown}"))
  | .logsq =>
    let (o1, l1, o2, l2) := Logs.readPtrs LOG_CAPACITY t.ctx.logs
    let d2 := match o2 with | some d => toString d | none => "null"
    (t, s!"seg {o1} {l1} {d2} {l2} cap={LOG_CAPACITY} {showBytes (Logs.read LOG_CAPACITY t.ctx.logs).toArray}")
  | .intern bs =>
    let (s', id) := t.ctx.interner.intern bs
    ({ t with ctx := { t.ctx with interner := s' } }, s!"id {id}")
  | .internreq n =>
    let (s', id, off) := t.ctx.interner.preallocate n
    ({ t with ctx := { t.ctx with interner := s' }, lastIntern := some (off, n) }, s!"id {id}")
  | .interncopy bs =>
    (match t.lastIntern with
     | none => (t, "no-dst")
     | some (off, n) =>
       if bs.size > n then (t, "copy-too-long") else
       ({ t with ctx := { t.ctx with interner := t.ctx.interner.copyAt off bs }, lastIntern := none }, "ok"))
  | .cached bs =>
    (match t.cache.find? (fun p => p.1 == bs) with
     | some (_, id) => (t, s!"id {id}")
     | none =>
       let (s', id) := t.ctx.interner.intern bs
       ({ t with ctx := { t.ctx with interner := s' }, cache := (bs, id) :: t.cache }, s!"id {id}"))
  | .boxPtr kind ptr len =>
    let tag := if kind = 0 then Tag_String else if kind = 1 then Tag_Object else Tag_Array
    (t, hexNat (NanBox.encode w ptr len tag) 1)
  | .boxBool b => (t, hexNat (NanBox.bool w b) 1)
  | .boxNull => (t, hexNat (NanBox.null w) 1)
  | .boxErr c => if c < 8 then (t, hexNat (NanBox.error w c) 1) else (t, "bad-op")
  | .boxNum bits =>
    (match NanBox.number w bits with
     | some v => (t, hexNat v 1)
     | none => (t, "PANIC"))
  | .unbox v =>
    (t, match NanBox.tryDecode w v with
        | .ok .null => "null"
        | .ok (.bool b) => s!"bool {if b then 1 else 0}"
        | .ok (.number bits) => s!"num {hexNat bits 16}"
        | .ok (.string p l) => s!"str {p} {l}"
        | .ok (.object p l) => s!"obj {p} {l}"
        | .ok (.array p l) => s!"arr {p} {l}"
        | .ok (.error c) => s!"err {c}"
        | .decodeError => "decode-error"
        | .panic => "PANIC")
  | .maxlen => (t, toString (MAX_VALUE_LENGTH w))
  | .deint ty bits =>
    let c0 := t.ctx.reinit ((0xcb : UInt8) :: beBytes 8 bits).toArray
    let (c1, a) := deRoot c0 ty
    ({ t with ctx := c1, handles := #[], lastAlloc := none }, a)
  | .de ty doc =>
    let c0 := t.ctx.reinit doc
    let (c1, a) := deRoot c0 ty
    ({ t with ctx := c1, handles := #[], lastAlloc := none }, a)
  | .serrt v dety =>
    let c0 := t.ctx.reinit #[0xc0]
    let (wr, st) := runAOps c0.writer v.ser
    let c1 := { c0 with writer := wr }
    let (fst, fbytes) := wr.finalize
    if fst = WriteResult_Ok then
      let doc := match decodeAll fbytes with
        | some d => showDoc true d
        | none => "undecodable"
      let c2 := c1.reinit fbytes
      let (c3, rt) := deRoot c2 dety
      ({ t with ctx := c3, handles := #[], lastAlloc := none }, s!"st={st} doc={doc} rt={rt} json=1")
    else
      ({ t with ctx := c1, handles := #[], lastAlloc := none }, s!"st={st} doc=unfinished rt=skipped json=-")

end Thread

/-- run a list of operations on one thread -/
def Thread.run (w : Nat) : Thread → List Op → Thread × List String
  | t, [] => (t, [])
  | t, op :: rest =>
    let (t1, a) := t.step w op
    let (t2, as) := Thread.run w t1 rest
    (t2, a :: as)

/-! ### a system of threads -/

structure Sys where
  threads : List (Nat × Thread) := []
  cur : Nat := 0
  deriving Inhabited

namespace Sys

def get (s : Sys) (t : Nat) : Thread :=
  match s.threads.find? (fun p => p.1 == t) with
  | some (_, th) => th
  | none => {}

def set (s : Sys) (t : Nat) (th : Thread) : Sys :=
  { s with threads := (t, th) :: s.threads.filter (fun p => p.1 != t) }

/-- run an operation on the current thread -/
def step (w : Nat) (s : Sys) (op : Op) : Sys × String :=
  let (th, a) := (s.get s.cur).step w op
  (s.set s.cur th, a)

/-- a schedule: which thread performs which operation, in global order -/
abbrev Sched := List (Nat × Op)

/-- run a schedule; the result lists (thread, answer) in global order -/
def runSched (w : Nat) : Sys → Sched → Sys × List (Nat × String)
  | s, [] => (s, [])
  | s, (t, op) :: rest =>
    let (s1, a) := ({ s with cur := t }).step w op
    let (s2, as) := runSched w s1 rest
    (s2, (t, a) :: as)

end Sys
end SfVerif
