import SfVerif.Model.Reader
import SfVerif.Model.Writer
import SfVerif.Model.Logs
import SfVerif.Model.Interner
import SfVerif.Model.NanBox
/-! `provider/src/lib.rs` + `provider/src/read.rs`: the per-thread provider context and the read
    entry points (unbox scope → kind check → node operation → box). -/
namespace SfVerif
open SfVerif.Gen

/-- a node is named by (index of the root allocation, path below it) -/
structure Handle where
  root : Nat
  path : Path
  deriving DecidableEq, Repr, Inhabited

/-- what a read call returns, before pointers are turned into protocol handle numbers -/
inductive RVal where
  | null
  | bool (b : Bool)
  | num (bits : Nat)
  | str (h : Handle) (len : Nat)
  | arr (h : Handle) (len : Nat)
  | obj (h : Handle) (len : Nat)
  | err (code : Nat)
  deriving DecidableEq, Repr, Inhabited

/-- the `scope` argument of a read call, as `try_decode` sees it -/
inductive Scope where
  | node (h : Handle)               -- a box previously returned for this node (string / array / object)
  | lit (d : NanBox.Decoded)        -- any other bit pattern; pointer kinds only with a null pointer
  deriving DecidableEq, Repr, Inhabited

/-- `provider::Context` -/
structure Ctx where
  input : Bytes := #[]
  roots : Array Node := #[]          -- one bump allocation per `input_get`
  writer : Writer := {}
  logs : Logs := Logs.init LOG_CAPACITY
  interner : Interner := {}
  deriving Inhabited

namespace Ctx

/-- `Context::default()` -/
def fresh : Ctx := {}

/-- native `initialize_from_msgpack_bytes`: everything is rebuilt, only the interner is carried over -/
def reinit (c : Ctx) (bytes : Bytes) : Ctx :=
  { (fresh) with input := bytes, interner := c.interner }

def fuel (c : Ctx) : Nat := c.input.size + 1

/-- `LazyValueRef::encode` for the node at handle `h` (F4 repair: a NaN number is a read error) -/
def encodeNode (h : Handle) : Node → RVal
  | .scalar .null => .null
  | .scalar (.bool b) => .bool b
  | .scalar (.num bits) => if F64.isNaN bits then .err ErrorCode_ReadError else .num bits
  | .scalar (.str _ l) => .str h l
  | .arr l _ _ => .arr h l
  | .obj l _ _ => .obj h l

def nodeAt? (c : Ctx) (h : Handle) : Option Node :=
  match c.roots[h.root]? with
  | none => none
  | some r => r.getPath? h.path

/-- `shopify_function_input_get` -/
def inputGet (c : Ctx) : Ctx × RVal :=
  match readHdr c.input 0 with
  | none => (c, .err ErrorCode_ReadError)
  | some hd =>
    let n := mkNode hd
    let h : Handle := { root := c.roots.size, path := [] }
    ({ c with roots := c.roots.push n }, encodeNode h n)

/-- what kind of box a handle is (decided by the node it was issued for) -/
inductive Kind where
  | string | array | object
  deriving DecidableEq, Repr

def kindOf : Node → Option Kind
  | .scalar (.str _ _) => some .string
  | .arr _ _ _ => some .array
  | .obj _ _ _ => some .object
  | _ => none

/-- run a mutating node operation at handle `h`, then box the child the operation points at -/
def nodeOp (c : Ctx) (h : Handle) (g : Node → Node × Got) (childStep : Nat → PStep) : Ctx × RVal :=
  match c.roots[h.root]? with
  | none => (c, .err ErrorCode_ReadError)       -- dangling handle: not reachable through the protocol
  | some r =>
    match r.updateAt h.path g with
    | none => (c, .err ErrorCode_ReadError)
    | some (r', got) =>
      let c' := { c with roots := c.roots.setIfInBounds h.root r' }
      match got with
      | .err code => (c', .err code)
      | .missing => (c', .null)
      | .at i =>
        let hc : Handle := { root := h.root, path := h.path ++ [childStep i] }
        match r'.getPath? hc.path with
        | none => (c', .err ErrorCode_ReadError)
        | some n => (c', encodeNode hc n)

/-- scope dispatch shared by the read entry points: `onObj`/`onArr` say whether that kind is
    accepted; `wrongKind` is the error for any other decodable value; `undecodable` the error for a
    bit pattern `try_decode` rejects. A null pointer is `ReadError` (`mut_from_raw`). -/
def dispatch (c : Ctx) (s : Scope) (acceptArr : Bool) (wrongKind undecodable : Nat)
    (op : Handle → Ctx × RVal) : Ctx × RVal :=
  match s with
  | .node h =>
    (match c.nodeAt? h with
     | none => (c, .err ErrorCode_ReadError)
     | some n =>
       match kindOf n with
       | some .object => op h
       | some .array => if acceptArr then op h else (c, .err wrongKind)
       | _ => (c, .err wrongKind))
  | .lit (.ok (.object _ _)) => (c, .err ErrorCode_ReadError)
  | .lit (.ok (.array _ _)) => if acceptArr then (c, .err ErrorCode_ReadError) else (c, .err wrongKind)
  | .lit (.ok _) => (c, .err wrongKind)
  | .lit _ => (c, .err undecodable)

/-- is the value at `h` an array (then `get_at_index` steps to an element) or an object (to a pair's value)? -/
def idxStep (c : Ctx) (h : Handle) : Nat → PStep :=
  match c.nodeAt? h with
  | some (.arr _ _ _) => PStep.elem
  | _ => PStep.val

/-- `shopify_function_input_get_at_index` -/
def getAtIndex (c : Ctx) (s : Scope) (i : Nat) : Ctx × RVal :=
  dispatch c s true ErrorCode_NotIndexable ErrorCode_ReadError
    (fun h => c.nodeOp h (fun n => n.getAtIndex c.input c.fuel i) (c.idxStep h))

/-- `shopify_function_input_get_obj_key_at_index` -/
def getKeyAtIndex (c : Ctx) (s : Scope) (i : Nat) : Ctx × RVal :=
  dispatch c s false ErrorCode_NotAnObject ErrorCode_ReadError
    (fun h => c.nodeOp h (fun n => n.getKeyAtIndex c.input c.fuel i) PStep.key)

/-- `shopify_function_input_get_obj_prop` -/
def getObjProp (c : Ctx) (s : Scope) (q : Bytes) : Ctx × RVal :=
  dispatch c s false ErrorCode_NotAnObject ErrorCode_DecodeError
    (fun h => c.nodeOp h (fun n => n.getProp c.input c.fuel q) PStep.val)

/-- `shopify_function_input_get_interned_obj_prop`; `none` = the interner's index panic -/
def getInternedObjProp (c : Ctx) (s : Scope) (id : Nat) : Option (Ctx × RVal) :=
  -- the interner is consulted only once the scope has been accepted as an object
  match s with
  | .node h =>
    (match c.nodeAt? h with
     | some (.obj _ _ _) =>
       (match c.interner.get? id with
        | none => none
        | some q => some (c.getObjProp s q))
     | _ => some (c.getObjProp s #[]))
  | .lit (.ok (.object _ _)) =>
    (match c.interner.get? id with
     | none => none
     | some q => some (c.getObjProp s q))
  | _ => some (c.getObjProp s #[])

/-- `shopify_function_input_get_val_len`; `none` is `usize::MAX` -/
def getValLen (c : Ctx) (s : Scope) : Option Nat :=
  match s with
  | .node h =>
    (match c.nodeAt? h with
     | none => none
     | some n => some n.valueLength)
  | _ => none

/-- `shopify_function_input_get_utf8_str_addr` as an offset into the input; `none` is address 0 -/
def strOffset (c : Ctx) (h : Handle) : Option Nat :=
  match c.nodeAt? h with
  | some (.scalar (.str off _)) => some off
  | _ => none

end Ctx
end SfVerif
