import SfVerif.Model.Ctx
/-! `api/src/read.rs`, `api/src/write.rs` and the `Value` accessors of `api/src/lib.rs`:
    typed (de)serialisation over the provider calls. -/
namespace SfVerif
open SfVerif.Gen

/-- the supported type constructors -/
inductive Ty where
  | unit | bool | f64 | str | char
  | int (lo hi : Int)                 -- an integer type with its range
  | opt (t : Ty)
  | vec (t : Ty)
  | map (t : Ty)                      -- string-keyed (HashMap / BTreeMap)
  | tup (ts : List Ty)
  | arrN (n : Nat) (t : Ty)           -- `[T; n]`
  deriving Repr, Inhabited

inductive TVal where
  | unit
  | bool (b : Bool)
  | int (z : Int)
  | f64 (bits : Nat)
  | str (bs : Bytes)
  | none
  | some (v : TVal)
  | seq (vs : List TVal)              -- Vec, slice, fixed array
  | map (ps : List (Bytes × TVal))    -- pairs in serialisation order
  | tup (vs : List TVal)
  | chr (bs : Bytes)                  -- a `char`, as its UTF-8 bytes
  deriving Repr, Inhabited

/-! ### `Value` accessors (api/src/lib.rs) over a returned value -/

/-- `Value::as_number` -/
def RVal.asNumber : RVal → Option Nat
  | .num b => some b
  | _ => none

/-- the saturating `as` cast of an exact integer value into `[lo, hi]` -/
def satCast (lo hi z : Int) : Int := if z < lo then lo else if hi < z then hi else z

/-- the guard of `impl_deserialize_for_int!`: `n.trunc() == n && n >= MIN as f64 && n <= MAX as f64`,
    then `n as $ty`. Comparisons of doubles are comparisons of their exact values; `MIN as f64` and
    `MAX as f64` are integral doubles, so they are compared through `toInt?`. -/
def deInt (lo hi : Int) (bits : Nat) : Option Int :=
  match F64.toInt? bits with
  | Option.none => Option.none                               -- fractional, infinite (or NaN)
  | Option.some z =>
    match F64.toInt? (F64.ofInt lo), F64.toInt? (F64.ofInt hi) with
    | Option.some flo, Option.some fhi => if flo ≤ z ∧ z ≤ fhi then Option.some (satCast lo hi z) else Option.none
    | _, _ => Option.none

/-! ### serialisation: `Serialize` impls as provider write calls -/

/-- one api-level write: the provider call plus, for strings, the copy -/
inductive AOp where
  | w (op : WOp)
  | str (bs : Bytes)
  deriving Repr

mutual
/-- `Serialize::serialize`: the calls made for a value, in order -/
def TVal.ser : TVal → List AOp
  | .unit => [.w .null]
  | .bool b => [.w (.bool b)]
  | .int z => [.w (.i32 z)]
  | .f64 bits => [.w (.f64 bits)]
  | .str bs => [.str bs]
  | .none => [.w .null]
  | .some v => v.ser
  | .seq vs => .w (.arr vs.length) :: (TVal.serList vs ++ [.w .endArr])
  | .map ps => .w (.obj ps.length) :: (TVal.serPairs ps ++ [.w .endObj])
  | .tup vs => .w (.arr vs.length) :: (TVal.serList vs ++ [.w .endArr])
  | .chr bs => [.str bs]
def TVal.serList : List TVal → List AOp
  | [] => []
  | v :: vs => v.ser ++ TVal.serList vs
def TVal.serPairs : List (Bytes × TVal) → List AOp
  | [] => []
  | (k, v) :: ps => (.str k :: v.ser) ++ TVal.serPairs ps
end

/-- run api-level writes; `?` semantics: stop at the first non-Ok status -/
def runAOps (w : Writer) : List AOp → Writer × Nat
  | [] => (w, WriteResult_Ok)
  | .w op :: rest =>
    (match w.step op with
     | (w', r, _) => if r ≠ WriteResult_Ok then (w', r) else runAOps w' rest)
  | .str bs :: rest =>
    (match w.writeStr bs with
     | (w', r) => if r ≠ WriteResult_Ok then (w', r) else runAOps w' rest)

/-! ### deserialisation over the reader -/

/-- api-level string fetch: `as_string` (length inline or by query, then the bytes) -/
def Ctx.stringAt (c : Ctx) (h : Handle) : Option Bytes :=
  match c.nodeAt? h with
  | Option.some (.scalar (.str off len)) => Option.some (c.input.extract off (off + len))
  | _ => Option.none

def RVal.toScope : RVal → Scope
  | .str h _ => .node h
  | .arr h _ => .node h
  | .obj h _ => .node h
  | .null => .lit (.ok .null)
  | .bool b => .lit (.ok (.bool b))
  | .num bits => .lit (.ok (.number bits))
  | .err code => .lit (.ok (.error code))

/-- number of characters of a (valid) UTF-8 byte string: bytes that are not continuation bytes -/
def utf8Chars (bs : Bytes) : Nat :=
  bs.foldl (fun n b => if b.toNat / 64 = 2 then n else n + 1) 0

mutual
/-- `Deserialize::deserialize` for a type, reading through the provider calls; fuel = type depth -/
def deTy (c : Ctx) : Ty → RVal → Ctx × Option TVal
  | .unit, v => (c, match v with | .null => Option.some .unit | _ => Option.none)
  | .bool, v => (c, match v with | .bool b => Option.some (.bool b) | _ => Option.none)
  | .f64, v => (c, match v with | .num b => Option.some (.f64 b) | _ => Option.none)
  | .int lo hi, v =>
    (c, match v with
        | .num b => (match deInt lo hi b with | Option.some z => Option.some (.int z) | Option.none => Option.none)
        | _ => Option.none)
  | .str, v =>
    (c, match v with
        | .str h _ => (match c.stringAt h with | Option.some bs => Option.some (.str bs) | Option.none => Option.none)
        | _ => Option.none)
  | .char, v =>
    (c, match v with
        | .str h _ =>
          (match c.stringAt h with
           | Option.some bs => if utf8Chars bs = 1 then Option.some (.chr bs) else Option.none
           | Option.none => Option.none)
        | _ => Option.none)
  | .opt t, v =>
    (match v with
     | .null => (c, Option.some .none)
     | v => match deTy c t v with
            | (c', Option.some x) => (c', Option.some (.some x))
            | (c', Option.none) => (c', Option.none))
  | .vec t, v =>
    (match v with
     | .arr _ len => (match deElems c t v 0 len with
                      | (c', Option.some xs) => (c', Option.some (.seq xs))
                      | (c', Option.none) => (c', Option.none))
     | _ => (c, Option.none))
  | .arrN n t, v =>
    (match v with
     | .arr _ len =>
       if len ≠ n then (c, Option.none)
       else (match deElems c t v 0 len with
             | (c', Option.some xs) => (c', Option.some (.seq xs))
             | (c', Option.none) => (c', Option.none))
     | _ => (c, Option.none))
  | .tup ts, v =>
    (match v with
     | .arr _ len =>
       if len ≠ ts.length then (c, Option.none)
       else (match deTuple c ts v 0 with
             | (c', Option.some xs) => (c', Option.some (.tup xs))
             | (c', Option.none) => (c', Option.none))
     | _ => (c, Option.none))
  | .map t, v =>
    (match v with
     | .obj _ len => (match dePairs c t v 0 len with
                      | (c', Option.some ps) => (c', Option.some (.map ps))
                      | (c', Option.none) => (c', Option.none))
     | _ => (c, Option.none))
termination_by t _ => (sizeOf t, 0)
/-- `for i in 0..len { T::deserialize(&value.get_at_index(i))? }` -/
def deElems (c : Ctx) (t : Ty) (v : RVal) (i : Nat) : Nat → Ctx × Option (List TVal)
  | 0 => (c, Option.some [])
  | k+1 =>
    match c.getAtIndex v.toScope i with
    | (c1, child) =>
      match deTy c1 t child with
      | (c2, Option.none) => (c2, Option.none)
      | (c2, Option.some x) =>
        match deElems c2 t v (i + 1) k with
        | (c3, Option.none) => (c3, Option.none)
        | (c3, Option.some xs) => (c3, Option.some (x :: xs))
termination_by k => (sizeOf t, k + 1)
def deTuple (c : Ctx) : List Ty → RVal → Nat → Ctx × Option (List TVal)
  | [], _, _ => (c, Option.some [])
  | t :: ts, v, i =>
    match c.getAtIndex v.toScope i with
    | (c1, child) =>
      match deTy c1 t child with
      | (c2, Option.none) => (c2, Option.none)
      | (c2, Option.some x) =>
        match deTuple c2 ts v (i + 1) with
        | (c3, Option.none) => (c3, Option.none)
        | (c3, Option.some xs) => (c3, Option.some (x :: xs))
termination_by ts _ _ => (sizeOf ts, 0)
/-- `for i in 0..obj_len { key = get_obj_key_at_index(i)?; value = get_at_index(i); … }` -/
def dePairs (c : Ctx) (t : Ty) (v : RVal) (i : Nat) : Nat → Ctx × Option (List (Bytes × TVal))
  | 0 => (c, Option.some [])
  | k+1 =>
    match c.getKeyAtIndex v.toScope i with
    | (c1, kv) =>
      match (match kv with | .str h _ => c1.stringAt h | _ => Option.none) with
      | Option.none => (c1, Option.none)
      | Option.some key =>
        match c1.getAtIndex v.toScope i with
        | (c2, child) =>
          match deTy c2 t child with
          | (c3, Option.none) => (c3, Option.none)
          | (c3, Option.some x) =>
            match dePairs c3 t v (i + 1) k with
            | (c4, Option.none) => (c4, Option.none)
            | (c4, Option.some ps) => (c4, Option.some ((key, x) :: ps))
termination_by k => (sizeOf t, k + 1)
end

end SfVerif
