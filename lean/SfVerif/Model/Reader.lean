import SfVerif.Model.MsgPack
import SfVerif.Gen.Enums
/-! `provider/src/read/lazy_value_ref.rs`: the lazily parsed tree. Each function transcribes the
    Rust function of the same name: same loops, same order of checks and mutations; every function
    returns the *updated* node also on error, because the Rust mutates before `?`.
    The processed prefix is stored last-first (`snoc`) so that `last_mut` is structural. -/
namespace SfVerif

mutual
inductive Node where
  | scalar (v : Scalar)
  | arr (len : Nat) (elems : NodeList) (endPos : Nat)
  | obj (len : Nat) (pairs : PairList) (endPos : Nat)
inductive NodeList where
  | nil
  | snoc (init : NodeList) (last : Node)
inductive PairList where
  | nil
  | snoc (init : PairList) (koff klen : Nat) (val : Node)
end

instance : Inhabited Node := ⟨.scalar .null⟩

def NodeList.length : NodeList → Nat
  | .nil => 0
  | .snoc i _ => i.length + 1

def PairList.length : PairList → Nat
  | .nil => 0
  | .snoc i _ _ _ => i.length + 1

/-- `j`-th element counted from the end (0 = last) -/
def NodeList.getRev? : NodeList → Nat → Option Node
  | .nil, _ => none
  | .snoc _ l, 0 => some l
  | .snoc i _, j+1 => i.getRev? j

/-- `k`-th processed element (0 = first) -/
def NodeList.get? (l : NodeList) (k : Nat) : Option Node :=
  if k < l.length then l.getRev? (l.length - 1 - k) else none

def PairList.getRev? : PairList → Nat → Option (Nat × Nat × Node)
  | .nil, _ => none
  | .snoc _ ko kl v, 0 => some (ko, kl, v)
  | .snoc i _ _ _, j+1 => i.getRev? j

def PairList.get? (l : PairList) (k : Nat) : Option (Nat × Nat × Node) :=
  if k < l.length then l.getRev? (l.length - 1 - k) else none

/-- fresh node for a header (`LazyValueRef::new`'s first component) -/
def mkNode : Hdr → Node
  | .scalar v _ => .scalar v
  | .arr l body => .arr l .nil body
  | .map l body => .obj l .nil body

def Hdr.endOr (h : Hdr) (dflt : Nat) : Nat :=
  match h with
  | .scalar _ e => e
  | _ => dflt

/-- outcome of `finish_processing`: error, or `Ok(Option<usize>)` -/
inductive Fin where
  | err
  | ok (e : Option Nat)
  deriving DecidableEq, Repr

/-- is this the byte range `[off, off+len)` of `b` equal to `q`? (`&bytes[ptr..ptr+len] == key`) -/
def keyEq (b : Bytes) (off len : Nat) (q : Bytes) : Bool :=
  len == q.size && (List.range len).all (fun i => b[off + i]! == q[i]!)

mutual
/-- `LazyValueRef::finish_processing` (depth fuel `f`; see `fuel_enough`) -/
def Node.finish (b : Bytes) : Nat → Node → Node × Fin
  | _, .scalar v => (.scalar v, .ok none)
  | 0, n => (n, .err)
  | f+1, .arr len .nil e => arrFinLoop b f len .nil e len
  | f+1, .arr len (.snoc init last) e =>
    match Node.finish b f last with
    | (last', .err) => (.arr len (.snoc init last') e, .err)
    | (last', .ok oe) =>
      arrFinLoop b f len (.snoc init last') (oe.getD e) (len - (init.length + 1))
  | f+1, .obj len .nil e => objFinLoop b f len .nil e len
  | f+1, .obj len (.snoc init ko kl last) e =>
    match Node.finish b f last with
    | (last', .err) => (.obj len (.snoc init ko kl last') e, .err)
    | (last', .ok oe) =>
      objFinLoop b f len (.snoc init ko kl last') (oe.getD e) (len - (init.length + 1))
termination_by f _ => (f, 0)

/-- the `for _ in 0..count` loop of `ArrayRef::finish_processing` -/
def arrFinLoop (b : Bytes) (f : Nat) (len : Nat) (elems : NodeList) (e : Nat) : Nat → Node × Fin
  | 0 => (.arr len elems e, .ok (some e))
  | k+1 =>
    match readHdr b e with
    | none => (.arr len elems e, .err)
    | some h =>
      match Node.finish b f (mkNode h) with
      | (_, .err) => (.arr len elems e, .err)
      | (n', .ok oe) => arrFinLoop b f len (.snoc elems n') (oe.getD (h.endOr e)) k
termination_by k => (f, k + 1)

/-- the `for _ in 0..count` loop of `ObjectRef::finish_processing` -/
def objFinLoop (b : Bytes) (f : Nat) (len : Nat) (pairs : PairList) (e : Nat) : Nat → Node × Fin
  | 0 => (.obj len pairs e, .ok (some e))
  | k+1 =>
    match readHdr b e with
    | some (.scalar (.str ko kl) ke) =>
      (match readHdr b ke with
       | none => (.obj len pairs e, .err)
       | some h =>
         match Node.finish b f (mkNode h) with
         | (_, .err) => (.obj len pairs e, .err)
         | (n', .ok oe) => objFinLoop b f len (.snoc pairs ko kl n') (oe.getD (h.endOr ke)) k)
    | _ => (.obj len pairs e, .err)
termination_by k => (f, k + 1)
end

/-- result of an indexed access: error code, or the index of the child now present -/
inductive Got where
  | err (code : Nat)
  | at (i : Nat)
  | missing                       -- `Ok(None)` of `get_property`
  deriving DecidableEq, Repr

open SfVerif.Gen in
/-- the `for _ in 0..count` loop of `ArrayRef::get_at_index` -/
def arrGetLoop (b : Bytes) (f : Nat) (len : Nat) : NodeList → Nat → Nat → Node × Got
  | elems, e, 0 => (.arr len elems e, .at (elems.length - 1))
  | elems, e, k+1 =>
    -- finish the last processed element first
    let step (elems : NodeList) (e : Nat) : Node × Got :=
      match readHdr b e with
      | none => (.arr len elems e, .err ErrorCode_ReadError)
      | some h => arrGetLoop b f len (.snoc elems (mkNode h)) (h.endOr e) k
    match elems with
    | .nil => step .nil e
    | .snoc init last =>
      match Node.finish b f last with
      | (last', .err) => (.arr len (.snoc init last') e, .err ErrorCode_ReadError)
      | (last', .ok oe) => step (.snoc init last') (oe.getD e)

open SfVerif.Gen in
/-- `ArrayRef::get_at_index` -/
def arrGet (b : Bytes) (f : Nat) (len : Nat) (elems : NodeList) (e : Nat) (index : Nat) : Node × Got :=
  if index ≥ len then (.arr len elems e, .err ErrorCode_IndexOutOfBounds)
  else if index < elems.length then (.arr len elems e, .at index)
  else arrGetLoop b f len elems e (index + 1 - elems.length)

open SfVerif.Gen in
/-- the `for _ in 0..count` loop of `ObjectRef::get_at_index` -/
def objGetLoop (b : Bytes) (f : Nat) (len : Nat) : PairList → Nat → Nat → Node × Got
  | pairs, e, 0 => (.obj len pairs e, .at (pairs.length - 1))
  | pairs, e, k+1 =>
    let step (pairs : PairList) (e : Nat) : Node × Got :=
      match readHdr b e with
      | some (.scalar (.str ko kl) ke) =>
        (match readHdr b ke with
         | none => (.obj len pairs e, .err ErrorCode_ReadError)
         | some h => objGetLoop b f len (.snoc pairs ko kl (mkNode h)) (h.endOr ke) k)
      | _ => (.obj len pairs e, .err ErrorCode_ReadError)
    match pairs with
    | .nil => step .nil e
    | .snoc init ko kl last =>
      match Node.finish b f last with
      | (last', .err) => (.obj len (.snoc init ko kl last') e, .err ErrorCode_ReadError)
      | (last', .ok oe) => step (.snoc init ko kl last') (oe.getD e)

open SfVerif.Gen in
/-- `ObjectRef::get_at_index` -/
def objGet (b : Bytes) (f : Nat) (len : Nat) (pairs : PairList) (e : Nat) (index : Nat) : Node × Got :=
  if index ≥ len then (.obj len pairs e, .err ErrorCode_IndexOutOfBounds)
  else if index < pairs.length then (.obj len pairs e, .at index)
  else objGetLoop b f len pairs e (index + 1 - pairs.length)

/-- `processed_elements.iter().position(key matches)`: the first processed pair whose key is `q` -/
def PairList.findKey (b : Bytes) (q : Bytes) : PairList → Option Nat
  | .nil => none
  | .snoc init ko kl _ =>
    match init.findKey b q with
    | some i => some i
    | none => if keyEq b ko kl q then some init.length else none

open SfVerif.Gen in
/-- the search loop of `ObjectRef::get_property` -/
def objPropLoop (b : Bytes) (f : Nat) (len : Nat) (q : Bytes) : PairList → Nat → Nat → Node × Got
  | pairs, e, 0 => (.obj len pairs e, .missing)
  | pairs, e, k+1 =>
    let step (pairs : PairList) (e : Nat) : Node × Got :=
      match readHdr b e with
      | some (.scalar (.str ko kl) ke) =>
        (match readHdr b ke with
         | none => (.obj len pairs e, .err ErrorCode_ReadError)
         | some h =>
           let pairs' := PairList.snoc pairs ko kl (mkNode h)
           if keyEq b ko kl q then (.obj len pairs' (h.endOr ke), .at (pairs'.length - 1))
           else objPropLoop b f len q pairs' (h.endOr ke) k)
      | _ => (.obj len pairs e, .err ErrorCode_ReadError)
    match pairs with
    | .nil => step .nil e
    | .snoc init ko kl last =>
      match Node.finish b f last with
      | (last', .err) => (.obj len (.snoc init ko kl last') e, .err ErrorCode_ReadError)
      | (last', .ok oe) => step (.snoc init ko kl last') (oe.getD e)

/-- `ObjectRef::get_property` -/
def objProp (b : Bytes) (f : Nat) (len : Nat) (pairs : PairList) (e : Nat) (q : Bytes) : Node × Got :=
  match pairs.findKey b q with
  | some i => (.obj len pairs e, .at i)
  | none => objPropLoop b f len q pairs e (len - pairs.length)

/-! ### the four `LazyValueRef` entry points -/

open SfVerif.Gen in
/-- `LazyValueRef::get_at_index` (value of an array element or of an object pair) -/
def Node.getAtIndex (b : Bytes) (f : Nat) (n : Node) (i : Nat) : Node × Got :=
  match n with
  | .arr len elems e => arrGet b f len elems e i
  | .obj len pairs e => objGet b f len pairs e i
  | n => (n, .err ErrorCode_NotIndexable)

open SfVerif.Gen in
/-- `LazyValueRef::get_key_at_index` -/
def Node.getKeyAtIndex (b : Bytes) (f : Nat) (n : Node) (i : Nat) : Node × Got :=
  match n with
  | .obj len pairs e => objGet b f len pairs e i
  | n => (n, .err ErrorCode_NotAnObject)

open SfVerif.Gen in
/-- `LazyValueRef::get_object_property` -/
def Node.getProp (b : Bytes) (f : Nat) (n : Node) (q : Bytes) : Node × Got :=
  match n with
  | .obj len pairs e => objProp b f len pairs e q
  | n => (n, .err ErrorCode_NotAnObject)

/-- `LazyValueRef::get_value_length` -/
def Node.valueLength : Node → Nat
  | .scalar (.str _ l) => l
  | .arr l _ _ => l
  | .obj l _ _ => l
  | _ => 0

/-! ### handles: a node is addressed by the path from its root -/

inductive PStep where
  | elem (i : Nat)     -- i-th element of an array
  | key (i : Nat)      -- key of the i-th pair
  | val (i : Nat)      -- value of the i-th pair
  deriving DecidableEq, Repr

abbrev Path := List PStep

mutual
/-- update the element `j` places from the end -/
def NodeList.updateRev (l : NodeList) (j : Nat) (p : Path) (g : Node → Node × Got) : Option (NodeList × Got) :=
  match l, j with
  | .nil, _ => none
  | .snoc init last, 0 =>
    (match Node.updateAt last p g with
     | none => none
     | some (last', r) => some (.snoc init last', r))
  | .snoc init last, j+1 =>
    (match NodeList.updateRev init j p g with
     | none => none
     | some (init', r) => some (.snoc init' last, r))
def PairList.updateRev (l : PairList) (j : Nat) (p : Path) (g : Node → Node × Got) : Option (PairList × Got) :=
  match l, j with
  | .nil, _ => none
  | .snoc init ko kl v, 0 =>
    (match Node.updateAt v p g with
     | none => none
     | some (v', r) => some (.snoc init ko kl v', r))
  | .snoc init ko kl v, j+1 =>
    (match PairList.updateRev init j p g with
     | none => none
     | some (init', r) => some (.snoc init' ko kl v, r))
/-- apply `g` to the node at path `p` below `n`; `none` when the path does not exist -/
def Node.updateAt (n : Node) (p : Path) (g : Node → Node × Got) : Option (Node × Got) :=
  match p with
  | [] => some (g n)
  | .elem i :: rest =>
    (match n with
     | .arr len elems e =>
       if i < elems.length then
         (match NodeList.updateRev elems (elems.length - 1 - i) rest g with
          | none => none
          | some (elems', r) => some (.arr len elems' e, r))
       else none
     | _ => none)
  | .val i :: rest =>
    (match n with
     | .obj len pairs e =>
       if i < pairs.length then
         (match PairList.updateRev pairs (pairs.length - 1 - i) rest g with
          | none => none
          | some (pairs', r) => some (.obj len pairs' e, r))
       else none
     | _ => none)
  | .key _ :: _ => none     -- a key is a string: every operation on it is answered without mutation
end

/-- the child a single path step denotes (a key step denotes the key's string node) -/
def Node.child? : Node → PStep → Option Node
  | .arr _ elems _, .elem i => elems.get? i
  | .obj _ pairs _, .val i => (match pairs.get? i with | some (_, _, c) => some c | none => none)
  | .obj _ pairs _, .key i =>
      (match pairs.get? i with | some (ko, kl, _) => some (.scalar (.str ko kl)) | none => none)
  | _, _ => none

/-- the node a path denotes -/
def Node.getPath? : Node → Path → Option Node
  | n, [] => some n
  | n, s :: rest =>
    match n.child? s with
    | none => none
    | some c => c.getPath? rest

end SfVerif
