import SfVerif.Model.Prelude
/-! `provider/src/log.rs`: the log ring. `append` hands out a copy plan, the caller (native glue
    or trampoline) performs the copies, `read` is `read_ptrs` followed by the host reading the
    two segments. Parametrised by the capacity (instantiated at the extracted constant).
    The buffer and messages are byte lists (the copy is `take ++ bytes ++ drop`). -/
namespace SfVerif

structure Logs where
  buf : List UInt8
  offset : Nat := 0
  len : Nat := 0
  deriving Repr, Inhabited

/-- (bytes of the message to skip, destination 1, length 1, destination 2 (`none` = null), length 2) -/
structure Plan where
  src : Nat
  dst1 : Nat
  len1 : Nat
  dst2 : Option Nat
  len2 : Nat
  deriving DecidableEq, Repr, Inhabited

namespace Logs

def init (cap : Nat) : Logs := { buf := List.replicate cap 0 }

/-- `Logs::append` -/
def append (cap : Nat) (l : Logs) (n : Nat) : Logs × Plan :=
  let src := if n > cap then n - cap else 0
  let n' := if n > cap then cap else n
  let spaceToEnd := cap - l.offset
  if n' ≤ spaceToEnd then
    ({ l with len := min (l.len + n') cap, offset := (l.offset + n') % cap },
     { src := src, dst1 := l.offset, len1 := n', dst2 := none, len2 := 0 })
  else
    ({ l with len := cap, offset := (l.offset + n') % cap },
     { src := src, dst1 := l.offset, len1 := spaceToEnd, dst2 := some 0, len2 := n' - spaceToEnd })

/-- overwrite `xs` into `buf` starting at `pos` (a copy that stays inside the buffer) -/
def blit (buf : List UInt8) (pos : Nat) (xs : List UInt8) : List UInt8 :=
  buf.take pos ++ xs ++ buf.drop (pos + xs.length)

/-- what the native glue / the trampoline does with a plan -/
def applyPlan (l : Logs) (msg : List UInt8) (p : Plan) : Logs :=
  let b1 := blit l.buf p.dst1 ((msg.drop p.src).take p.len1)
  let b2 := match p.dst2 with
    | some d => blit b1 d ((msg.drop (p.src + p.len1)).take p.len2)
    | none => b1
  { l with buf := b2 }

/-- a whole log call -/
def log (cap : Nat) (l : Logs) (msg : List UInt8) : Logs :=
  let (l', p) := append cap l msg.length
  applyPlan l' msg p

/-- `Logs::read_ptrs`: (offset 1, length 1, offset 2 (`none` = null), length 2) -/
def readPtrs (cap : Nat) (l : Logs) : Nat × Nat × Option Nat × Nat :=
  let readOffset := if l.len < cap then 0 else l.offset
  if readOffset = 0 then (0, l.len, none, 0)
  else (l.offset, cap - readOffset, some 0, l.len - (cap - readOffset))

/-- the bytes the host reads: segment 1 followed by segment 2 -/
def read (cap : Nat) (l : Logs) : List UInt8 :=
  match readPtrs cap l with
  | (o1, l1, some o2, l2) => (l.buf.drop o1).take l1 ++ (l.buf.drop o2).take l2
  | (o1, l1, none, _) => (l.buf.drop o1).take l1

end Logs
end SfVerif
