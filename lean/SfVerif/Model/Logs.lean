import SfVerif.Model.Prelude
/-! `provider/src/log.rs`: the log ring. `append` hands out a copy plan, the caller (native glue
    or trampoline) performs the copies, `read` is `read_ptrs` followed by the host reading the
    two segments. Parametrised by the capacity (instantiated at the extracted constant). -/
namespace SfVerif

structure Logs where
  buf : Array UInt8
  offset : Nat := 0
  len : Nat := 0
  deriving Repr, Inhabited

/-- (bytes of the message to skip, destination 1, length 1, destination 2 (`none` = null), length 2) -/
structure Plan where
  src : Nat
  dst1 : Nat
  len1 : Nat
  dst2 : Option Nat
  len2 : Nat
  deriving DecidableEq, Repr, Inhabited

namespace Logs

def init (cap : Nat) : Logs := { buf := Array.replicate cap 0 }

/-- `Logs::append` -/
def append (cap : Nat) (l : Logs) (n : Nat) : Logs × Plan :=
  let src := if n > cap then n - cap else 0
  let n' := if n > cap then cap else n
  let spaceToEnd := cap - l.offset
  if n' ≤ spaceToEnd then
    ({ l with len := min (l.len + n') cap, offset := (l.offset + n') % cap },
     { src := src, dst1 := l.offset, len1 := n', dst2 := none, len2 := 0 })
  else
    ({ l with len := cap, offset := (l.offset + n') % cap },
     { src := src, dst1 := l.offset, len1 := spaceToEnd, dst2 := some 0, len2 := n' - spaceToEnd })

/-- copy `n` bytes of `msg` starting at `from` into the buffer at `dst` -/
def blit (buf : Array UInt8) (dst : Nat) (msg : Bytes) (frm n : Nat) : Array UInt8 :=
  if frm + n ≤ msg.size then blitAt buf dst (msg.extract frm (frm + n))
  else (List.range n).foldl (fun b i => b.setIfInBounds (dst + i) msg[frm + i]!) buf

/-- what the native glue / the trampoline does with a plan -/
def applyPlan (l : Logs) (msg : Bytes) (p : Plan) : Logs :=
  let b1 := blit l.buf p.dst1 msg p.src p.len1
  let b2 := match p.dst2 with
    | some d => blit b1 d msg (p.src + p.len1) p.len2
    | none => b1
  { l with buf := b2 }

/-- a whole log call -/
def log (cap : Nat) (l : Logs) (msg : Bytes) : Logs :=
  let (l', p) := append cap l msg.size
  applyPlan l' msg p

/-- `Logs::read_ptrs`: (offset 1, length 1, offset 2 (`none` = null), length 2) -/
def readPtrs (cap : Nat) (l : Logs) : Nat × Nat × Option Nat × Nat :=
  let readOffset := if l.len < cap then 0 else l.offset
  if readOffset = 0 then (0, l.len, none, 0)
  else (l.offset, cap - readOffset, some 0, l.len - (cap - readOffset))

/-- the bytes the host reads: segment 1 followed by segment 2 -/
def read (cap : Nat) (l : Logs) : List UInt8 :=
  match readPtrs cap l with
  | (o1, l1, some o2, l2) => (l.buf.extract o1 (o1 + l1)).toList ++ (l.buf.extract o2 (o2 + l2)).toList
  | (o1, l1, none, _) => (l.buf.extract o1 (o1 + l1)).toList

end Logs
end SfVerif
