import SfVerif.Model.Prelude
/-! IEEE-754 binary64 as its 64 bits (a `Nat` below 2^64). Never Lean's `Float`.
    `ofInt` is Rust's `as f64` on integers (round to nearest, ties to even), `ofF32` the exact
    widening of a binary32, `toInt?` the exact integer value of an integral finite double. -/
namespace SfVerif.F64

def signBit (b : Nat) : Nat := b / 2 ^ 63
def expField (b : Nat) : Nat := (b / 2 ^ 52) % 2048
def manField (b : Nat) : Nat := b % 2 ^ 52

def isNaN (b : Nat) : Bool := expField b == 2047 && manField b != 0
def isInf (b : Nat) : Bool := expField b == 2047 && manField b == 0
def isFinite (b : Nat) : Bool := expField b != 2047

/-- bits of `n as f64` for an unsigned integer -/
def ofNat (n : Nat) : Nat :=
  if n = 0 then 0 else
  let e := Nat.log2 n
  if e ≤ 52 then (e + 1023) * 2 ^ 52 + (n * 2 ^ (52 - e) - 2 ^ 52)
  else
    let sh := e - 52
    let q := n / 2 ^ sh
    let r := n % 2 ^ sh
    let half := 2 ^ (sh - 1)
    let q' := if r > half ∨ (r = half ∧ q % 2 = 1) then q + 1 else q
    (e + 1023) * 2 ^ 52 + (q' - 2 ^ 52)

/-- bits of `z as f64` for a signed integer -/
def ofInt (z : Int) : Nat :=
  if z < 0 then 2 ^ 63 + ofNat z.natAbs else ofNat z.toNat

/-- exact widening of binary32 bits to binary64 bits -/
def ofF32 (x : Nat) : Nat :=
  let s := x / 2 ^ 31
  let e := (x / 2 ^ 23) % 256
  let m := x % 2 ^ 23
  let body :=
    if e = 255 then 2047 * 2 ^ 52 + m * 2 ^ 29
    else if e = 0 then
      (if m = 0 then 0 else
        let k := Nat.log2 m
        (k + 874) * 2 ^ 52 + (m * 2 ^ (52 - k) - 2 ^ 52))   -- k - 149 + 1023
    else (e + 896) * 2 ^ 52 + m * 2 ^ 29                        -- e - 127 + 1023
  s * 2 ^ 63 + body

/-- the exact integer value, when the double is finite and integral -/
def toInt? (b : Nat) : Option Int :=
  let e := expField b
  let m := manField b
  let neg := signBit b % 2 = 1
  let sgn : Int → Int := fun v => if neg then -v else v
  if e = 2047 then none
  else if e = 0 then (if m = 0 then some 0 else none)
  else
    let mm := 2 ^ 52 + m
    if 1075 ≤ e then some (sgn ((mm * 2 ^ (e - 1075) : Nat) : Int))
    else
      let k := 1075 - e
      if mm % 2 ^ k = 0 then some (sgn ((mm / 2 ^ k : Nat) : Int)) else none

end SfVerif.F64
