/-! Shared basics for the executable models. Core Lean only (the driver links as a `lean_exe`). -/
namespace SfVerif

abbrev Bytes := Array UInt8

/-- bitwise complement within `bits` bits (Rust's `!x` on an unsigned type of that width) -/
def bnot (bits x : Nat) : Nat := (2 ^ bits - 1) ^^^ x

/-- big-endian unsigned integer from `n` bytes at `p`; `none` when out of range
    (the `position + n > length` check of the cursor) -/
def natOfBE (bs : List UInt8) : Nat := bs.foldl (fun acc x => acc * 256 + x.toNat) 0

def beRead (b : Bytes) (p n : Nat) : Option Nat :=
  if p + n ≤ b.size then some (natOfBE (b.extract p (p + n)).toList) else none

/-- two's complement reinterpretation of an unsigned `bits`-bit number -/
def toSigned (bits x : Nat) : Int :=
  if x < 2 ^ (bits - 1) then (x : Int) else (x : Int) - (2 ^ bits : Nat)

def beBytes (n v : Nat) : List UInt8 :=
  (List.range n).map (fun i => UInt8.ofNat ((v >>> (8 * (n - 1 - i))) % 256))

/-- overwrite `dst[off .. off + src.size)` with `src` (writes that fall outside are dropped) -/
def blitAt (dst : Array UInt8) (off : Nat) (src : Bytes) : Array UInt8 :=
  if off + src.size ≤ dst.size then
    dst.extract 0 off ++ src ++ dst.extract (off + src.size) dst.size
  else
    (List.range src.size).foldl (fun o i => o.setIfInBounds (off + i) src[i]!) dst

end SfVerif
