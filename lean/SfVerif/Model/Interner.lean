import SfVerif.Model.Prelude
/-! `provider/src/string_interner.rs` -/
namespace SfVerif

structure Interner where
  buf : Array UInt8 := #[]
  spans : Array (Nat × Nat) := #[]
  deriving Repr, Inhabited

namespace Interner

/-- `preallocate(len)`: (id, offset of the destination in `buf`) -/
def preallocate (s : Interner) (len : Nat) : Interner × Nat × Nat :=
  let off := s.buf.size
  ({ buf := s.buf ++ Array.replicate len 0, spans := s.spans.push (off, len) }, s.spans.size, off)

/-- the glue's copy into the preallocated destination -/
def copyAt (s : Interner) (off : Nat) (bs : Bytes) : Interner :=
  { s with buf := blitAt s.buf off bs }

/-- `get(id)`; `none` is the index panic of `self.spans[id]` -/
def get? (s : Interner) (id : Nat) : Option Bytes :=
  match s.spans[id]? with
  | none => none
  | some (off, len) => some (s.buf.extract off (off + len))

/-- a whole intern call -/
def intern (s : Interner) (bs : Bytes) : Interner × Nat :=
  let (s', id, off) := s.preallocate bs.size
  (s'.copyAt off bs, id)

end Interner
end SfVerif
