import SfVerif.Model.MsgPack
/-! The eager, sequential decoder of the supported MessagePack subset into a document tree
    (integers kept apart from floats so that "i32 exactly" and "f64 bit for bit" are visible). -/
namespace SfVerif

inductive Doc where
  | nil
  | bool (b : Bool)
  | int (z : Int)
  | f32 (bits : Nat)
  | f64 (bits : Nat)
  | str (bs : Bytes)
  | arr (xs : List Doc)
  | map (ps : List (Doc × Doc))
  deriving Repr, Inhabited

mutual
/-- decode one value at `p`: (document, end offset); fuel bounds the nesting depth -/
def decodeAt (b : Bytes) : Nat → Nat → Option (Doc × Nat)
  | 0, _ => none
  | f+1, p =>
    match b[p]? with
    | none => none
    | some mk =>
      let m := mk.toNat
      let q := p + 1
      let strD (start len : Nat) : Option (Doc × Nat) :=
        if start + len ≤ b.size then some (.str (b.extract start (start + len)), start + len) else none
      let intU (n : Nat) : Option (Doc × Nat) :=
        match beRead b q n with | none => none | some v => some (.int v, q + n)
      let intS (n : Nat) : Option (Doc × Nat) :=
        match beRead b q n with | none => none | some v => some (.int (toSigned (8 * n) v), q + n)
      let arrD (start len : Nat) : Option (Doc × Nat) :=
        match decodeN b f len start with | none => none | some (xs, e) => some (.arr xs, e)
      let mapD (start len : Nat) : Option (Doc × Nat) :=
        match decodePairs b f len start with | none => none | some (ps, e) => some (.map ps, e)
      if m < 0x80 then some (.int m, q)
      else if m < 0x90 then mapD q (m - 0x80)
      else if m < 0xa0 then arrD q (m - 0x90)
      else if m < 0xc0 then strD q (m - 0xa0)
      else if m = 0xc0 then some (.nil, q)
      else if m = 0xc2 then some (.bool false, q)
      else if m = 0xc3 then some (.bool true, q)
      else if m = 0xca then (match beRead b q 4 with | none => none | some v => some (.f32 v, q + 4))
      else if m = 0xcb then (match beRead b q 8 with | none => none | some v => some (.f64 v, q + 8))
      else if m = 0xcc then intU 1
      else if m = 0xcd then intU 2
      else if m = 0xce then intU 4
      else if m = 0xcf then intU 8
      else if m = 0xd0 then intS 1
      else if m = 0xd1 then intS 2
      else if m = 0xd2 then intS 4
      else if m = 0xd3 then intS 8
      else if m = 0xd9 then (match beRead b q 1 with | none => none | some l => strD (q + 1) l)
      else if m = 0xda then (match beRead b q 2 with | none => none | some l => strD (q + 2) l)
      else if m = 0xdb then (match beRead b q 4 with | none => none | some l => strD (q + 4) l)
      else if m = 0xdc then (match beRead b q 2 with | none => none | some l => arrD (q + 2) l)
      else if m = 0xdd then (match beRead b q 4 with | none => none | some l => arrD (q + 4) l)
      else if m = 0xde then (match beRead b q 2 with | none => none | some l => mapD (q + 2) l)
      else if m = 0xdf then (match beRead b q 4 with | none => none | some l => mapD (q + 4) l)
      else if 0xe0 ≤ m then some (.int (toSigned 8 m), q)
      else none
def decodeN (b : Bytes) : Nat → Nat → Nat → Option (List Doc × Nat)
  | _, 0, p => some ([], p)
  | f, k+1, p =>
    match decodeAt b f p with
    | none => none
    | some (d, e) =>
      match decodeN b f k e with
      | none => none
      | some (ds, e') => some (d :: ds, e')
def decodePairs (b : Bytes) : Nat → Nat → Nat → Option (List (Doc × Doc) × Nat)
  | _, 0, p => some ([], p)
  | f, k+1, p =>
    match decodeAt b f p with
    | none => none
    | some (kd, e) =>
      match decodeAt b f e with
      | none => none
      | some (vd, e2) =>
        match decodePairs b f k e2 with
        | none => none
        | some (ps, e') => some ((kd, vd) :: ps, e')
end

/-- the whole byte string is exactly one value -/
def decodeAll (b : Bytes) : Option Doc :=
  match decodeAt b (b.size + 1) 0 with
  | some (d, e) => if e = b.size then some d else none
  | none => none

end SfVerif
