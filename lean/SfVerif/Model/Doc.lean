import SfVerif.Model.MsgPack
/-! The eager, sequential decoder of the supported MessagePack subset into a document tree
    (integers kept apart from floats so that "i32 exactly" and "f64 bit for bit" are visible). -/
namespace SfVerif

inductive Doc where
  | nil
  | bool (b : Bool)
  | int (z : Int)
  | f32 (bits : Nat)
  | f64 (bits : Nat)
  | str (bs : Bytes)
  | arr (xs : List Doc)
  | map (ps : List (Doc × Doc))
  deriving Repr, Inhabited

/-- a string of `len` bytes starting at `start` -/
def strDoc (b : Bytes) (start len : Nat) : Option (Doc × Nat) :=
  if start + len ≤ b.size then some (.str (b.extract start (start + len)), start + len) else none

/-- what a marker byte announces -/
inductive Marker where
  | imm (d : Doc)                 -- complete in the marker byte
  | f32 | f64
  | uint (n : Nat) | sint (n : Nat)     -- n payload bytes
  | strFix (len : Nat) | strN (n : Nat) -- n length bytes
  | arrFix (len : Nat) | arrN (n : Nat)
  | mapFix (len : Nat) | mapN (n : Nat)
  | bad
  deriving Inhabited

/-- markers 0xc0 … 0xdf -/
def markerTagged (m : Nat) : Marker :=
  match m with
  | 0xc0 => .imm .nil
  | 0xc2 => .imm (.bool false)
  | 0xc3 => .imm (.bool true)
  | 0xca => .f32
  | 0xcb => .f64
  | 0xcc => .uint 1 | 0xcd => .uint 2 | 0xce => .uint 4 | 0xcf => .uint 8
  | 0xd0 => .sint 1 | 0xd1 => .sint 2 | 0xd2 => .sint 4 | 0xd3 => .sint 8
  | 0xd9 => .strN 1 | 0xda => .strN 2 | 0xdb => .strN 4
  | 0xdc => .arrN 2 | 0xdd => .arrN 4
  | 0xde => .mapN 2 | 0xdf => .mapN 4
  | _ => .bad

def markerOf (m : Nat) : Marker :=
  if m < 0xc0 then
    (if m < 0x80 then .imm (.int m)
     else if m < 0x90 then .mapFix (m - 0x80)
     else if m < 0xa0 then .arrFix (m - 0x90)
     else .strFix (m - 0xa0))
  else if 0xe0 ≤ m then .imm (.int (toSigned 8 m))
  else markerTagged m

mutual
/-- decode one value at `p`: (document, end offset); fuel bounds the nesting depth -/
def decodeAt (b : Bytes) : Nat → Nat → Option (Doc × Nat)
  | 0, _ => none
  | f+1, p =>
    match b[p]? with
    | none => none
    | some mk =>
      let q := p + 1
      match markerOf mk.toNat with
      | .imm d => some (d, q)
      | .f32 => (match beRead b q 4 with | none => none | some v => some (.f32 v, q + 4))
      | .f64 => (match beRead b q 8 with | none => none | some v => some (.f64 v, q + 8))
      | .uint n => (match beRead b q n with | none => none | some v => some (.int v, q + n))
      | .sint n => (match beRead b q n with | none => none | some v => some (.int (toSigned (8 * n) v), q + n))
      | .strFix len => strDoc b q len
      | .strN n => (match beRead b q n with | none => none | some l => strDoc b (q + n) l)
      | .arrFix len => (match decodeN b f len q with | none => none | some (xs, e) => some (.arr xs, e))
      | .arrN n =>
        (match beRead b q n with
         | none => none
         | some l => match decodeN b f l (q + n) with | none => none | some (xs, e) => some (.arr xs, e))
      | .mapFix len => (match decodePairs b f len q with | none => none | some (ps, e) => some (.map ps, e))
      | .mapN n =>
        (match beRead b q n with
         | none => none
         | some l => match decodePairs b f l (q + n) with | none => none | some (ps, e) => some (.map ps, e))
      | .bad => none
def decodeN (b : Bytes) : Nat → Nat → Nat → Option (List Doc × Nat)
  | _, 0, p => some ([], p)
  | f, k+1, p =>
    match decodeAt b f p with
    | none => none
    | some (d, e) =>
      match decodeN b f k e with
      | none => none
      | some (ds, e') => some (d :: ds, e')
def decodePairs (b : Bytes) : Nat → Nat → Nat → Option (List (Doc × Doc) × Nat)
  | _, 0, p => some ([], p)
  | f, k+1, p =>
    match decodeAt b f p with
    | none => none
    | some (kd, e) =>
      match decodeAt b f e with
      | none => none
      | some (vd, e2) =>
        match decodePairs b f k e2 with
        | none => none
        | some (ps, e') => some ((kd, vd) :: ps, e')
end

/-- the whole byte string is exactly one value -/
def decodeAll (b : Bytes) : Option Doc :=
  match decodeAt b (b.size + 1) 0 with
  | some (d, e) => if e = b.size then some d else none
  | none => none

end SfVerif
