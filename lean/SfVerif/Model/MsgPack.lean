import SfVerif.Model.F64
/-! MessagePack: the header reader (= `LazyValueRef::new` without allocation), the eager
    sequential decoder of the supported subset, and the `rmp` encoders the writer uses. -/
namespace SfVerif

inductive Scalar where
  | null
  | bool (b : Bool)
  | num (bits : Nat)
  | str (off len : Nat)
  deriving DecidableEq, Repr, Inhabited

inductive Hdr where
  | scalar (v : Scalar) (endp : Nat)   -- complete, ends at `endp`
  | arr (len body : Nat)               -- children start at `body`
  | map (len body : Nat)
  deriving DecidableEq, Repr, Inhabited

/-- number header: `n` big-endian payload bytes after the marker -/
def numHdr (b : Bytes) (p n : Nat) (conv : Nat → Nat) : Option Hdr :=
  match beRead b p n with
  | none => none
  | some v => some (.scalar (.num (conv v)) (p + n))

/-- string header: the extent must lie inside the input (F5 repair) -/
def strHdr (b : Bytes) (start len : Nat) : Option Hdr :=
  if len ≤ b.size - start then some (.scalar (.str start len) (start + len)) else none

/-- array header: each element needs at least one byte (F6 repair) -/
def arrHdr (b : Bytes) (body len : Nat) : Option Hdr :=
  if len ≤ b.size - body then some (.arr len body) else none

/-- map header: each pair needs at least two bytes (F6 repair) -/
def mapHdr (b : Bytes) (body len : Nat) : Option Hdr :=
  if len ≤ (b.size - body) / 2 then some (.map len body) else none

/-- markers below 0xc0: positive fixint, fixmap, fixarray, fixstr -/
def hdrFix (b : Bytes) (p m : Nat) : Option Hdr :=
  if m < 0x80 then some (.scalar (.num (F64.ofNat m)) p)
  else if m < 0x90 then mapHdr b p (m - 0x80)
  else if m < 0xa0 then arrHdr b p (m - 0x90)
  else strHdr b p (m - 0xa0)

/-- markers 0xc0 … 0xdf (bin, ext and the reserved 0xc1 are unsupported) -/
def hdrTagged (b : Bytes) (p m : Nat) : Option Hdr :=
  match m with
  | 0xc0 => some (.scalar .null p)
  | 0xc2 => some (.scalar (.bool false) p)
  | 0xc3 => some (.scalar (.bool true) p)
  | 0xca => numHdr b p 4 F64.ofF32
  | 0xcb => numHdr b p 8 id
  | 0xcc => numHdr b p 1 F64.ofNat
  | 0xcd => numHdr b p 2 F64.ofNat
  | 0xce => numHdr b p 4 F64.ofNat
  | 0xcf => numHdr b p 8 F64.ofNat
  | 0xd0 => numHdr b p 1 (fun v => F64.ofInt (toSigned 8 v))
  | 0xd1 => numHdr b p 2 (fun v => F64.ofInt (toSigned 16 v))
  | 0xd2 => numHdr b p 4 (fun v => F64.ofInt (toSigned 32 v))
  | 0xd3 => numHdr b p 8 (fun v => F64.ofInt (toSigned 64 v))
  | 0xd9 => (match beRead b p 1 with | none => none | some l => strHdr b (p + 1) l)
  | 0xda => (match beRead b p 2 with | none => none | some l => strHdr b (p + 2) l)
  | 0xdb => (match beRead b p 4 with | none => none | some l => strHdr b (p + 4) l)
  | 0xdc => (match beRead b p 2 with | none => none | some l => arrHdr b (p + 2) l)
  | 0xdd => (match beRead b p 4 with | none => none | some l => arrHdr b (p + 4) l)
  | 0xde => (match beRead b p 2 with | none => none | some l => mapHdr b (p + 2) l)
  | 0xdf => (match beRead b p 4 with | none => none | some l => mapHdr b (p + 4) l)
  | _ => none

/-- the `match marker` of `LazyValueRef::new`: marker value `m`, cursor `p` just after it -/
def hdrOfMarker (b : Bytes) (p m : Nat) : Option Hdr :=
  if m < 0xc0 then hdrFix b p m
  else if 0xe0 ≤ m then some (.scalar (.num (F64.ofInt (toSigned 8 m))) p)
  else hdrTagged b p m

/-- `LazyValueRef::new(bytes, pos)`; `none` is `ErrorCode::ReadError` -/
def readHdr (b : Bytes) (pos : Nat) : Option Hdr :=
  match b[pos]? with
  | none => none
  | some mk => hdrOfMarker b (pos + 1) mk.toNat

/-! ### `rmp::encode` as used by the writer -/

def encNil : List UInt8 := [0xc0]
def encBool (v : Bool) : List UInt8 := [if v then 0xc3 else 0xc2]
def encF64 (bits : Nat) : List UInt8 := 0xcb :: beBytes 8 bits

/-- `rmp::encode::write_sint` (the most compact encoding, unsigned markers for non-negatives) -/
def encSint (z : Int) : List UInt8 :=
  if z < 0 then
    let u (bits : Nat) : Nat := (z + (2 ^ bits : Nat)).toNat
    if -32 ≤ z then [UInt8.ofNat (u 8)]
    else if -128 ≤ z then 0xd0 :: beBytes 1 (u 8)
    else if -32768 ≤ z then 0xd1 :: beBytes 2 (u 16)
    else if -2147483648 ≤ z then 0xd2 :: beBytes 4 (u 32)
    else 0xd3 :: beBytes 8 (u 64)
  else
    let n := z.toNat
    if n < 128 then [UInt8.ofNat n]
    else if n < 256 then 0xcc :: beBytes 1 n
    else if n < 65536 then 0xcd :: beBytes 2 n
    else if n < 4294967296 then 0xce :: beBytes 4 n
    else 0xcf :: beBytes 8 n

/-- `write_str_len(len as u32)` -/
def encStrLen (len : Nat) : List UInt8 :=
  let n := len % 2 ^ 32
  if n < 32 then [UInt8.ofNat (0xa0 + n)]
  else if n < 256 then 0xd9 :: beBytes 1 n
  else if n < 65536 then 0xda :: beBytes 2 n
  else 0xdb :: beBytes 4 n

def encArrLen (len : Nat) : List UInt8 :=
  let n := len % 2 ^ 32
  if n < 16 then [UInt8.ofNat (0x90 + n)]
  else if n < 65536 then 0xdc :: beBytes 2 n
  else 0xdd :: beBytes 4 n

def encMapLen (len : Nat) : List UInt8 :=
  let n := len % 2 ^ 32
  if n < 16 then [UInt8.ofNat (0x80 + n)]
  else if n < 65536 then 0xde :: beBytes 2 n
  else 0xdf :: beBytes 4 n

end SfVerif
