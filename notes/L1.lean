/-! reduced prototype of the C01 refinement: arrays + one-byte scalars + fixstr -/
namespace L1

abbrev Bytes := Array UInt8

inductive Hdr
| scalar (v : Nat) (endp : Nat)          -- null/bool/fixint/fixstr…: complete, ends at endp
| arr (len : Nat) (body : Nat)           -- container: children start at body
deriving DecidableEq, Repr

/-- `LazyValueRef::new` without allocation -/
def readHdr (b : Bytes) (pos : Nat) : Option Hdr :=
  match b[pos]? with
  | none => none
  | some m =>
    let m := m.toNat
    if m < 0x80 then some (.scalar m (pos + 1))
    else if 0xa0 ≤ m ∧ m < 0xc0 then
      (if pos + 1 + (m - 0xa0) ≤ b.size then some (.scalar m (pos + 1 + (m - 0xa0))) else none)
    else if 0x90 ≤ m ∧ m < 0xa0 then some (.arr (m - 0x90) (pos + 1))
    else if m = 0xdc then
      (if pos + 3 ≤ b.size then some (.arr ((b[pos+1]!).toNat * 256 + (b[pos+2]!).toNat) (pos + 3)) else none)
    else none

theorem getElem?_lt {b : Bytes} {pos : Nat} {m : UInt8} (h : b[pos]? = some m) : pos < b.size :=
  (Array.getElem?_eq_some_iff.mp h).1

theorem readHdr_scalar_gt {b pos v e} (h : readHdr b pos = some (.scalar v e)) : pos < e ∧ e ≤ b.size := by
  unfold readHdr at h
  split at h
  · simp at h
  · rename_i m hm
    have hlt := getElem?_lt hm
    simp only [] at h
    repeat' (split at h)
    all_goals (first | (simp at h; omega) | simp at h)

theorem readHdr_arr_gt {b pos l body} (h : readHdr b pos = some (.arr l body)) : pos < body ∧ body ≤ b.size := by
  unfold readHdr at h
  split at h
  · simp at h
  · rename_i m hm
    have hlt := getElem?_lt hm
    simp only [] at h
    repeat' (split at h)
    all_goals (first | (simp at h; omega) | simp at h)

/-! eager spec -/
mutual
def skip (b : Bytes) : Nat → Nat → Option Nat
| 0, _ => none
| f+1, pos => match readHdr b pos with
  | none => none
  | some (.scalar _ e) => some e
  | some (.arr len body) => skipN b f len body
def skipN (b : Bytes) : Nat → Nat → Nat → Option Nat
| _, 0, pos => some pos
| f, k+1, pos => match skip b f pos with
  | none => none
  | some e => skipN b f k e
end

/-! lazy nodes -/
mutual
inductive Node
| scalar (v : Nat)
| arr (len : Nat) (elems : NodeList) (endPos : Nat)
inductive NodeList
| nil | snoc (init : NodeList) (last : Node)
end

def NodeList.length : NodeList → Nat
| .nil => 0 | .snoc i _ => i.length + 1

def mkNode : Hdr → Node
| .scalar v _ => .scalar v
| .arr l body => .arr l .nil body

def Node.isComposite : Node → Bool | .arr .. => true | _ => false

inductive Res | err | ok (e : Option Nat)
deriving DecidableEq, Repr

mutual
def Node.finish (b : Bytes) : Nat → Node → Node × Res
| _, .scalar v => (.scalar v, .ok none)
| 0, .arr len elems e => (.arr len elems e, .err)          -- depth fuel exhausted
| f+1, .arr len .nil e => arrLoop b f len .nil e len
| f+1, .arr len (.snoc init last) e =>
    match Node.finish b f last with
    | (last', .err) => (.arr len (.snoc init last') e, .err)
    | (last', .ok oe) =>
      arrLoop b f len (.snoc init last') (oe.getD e) (len - (init.length + 1))
termination_by f n => (f, 0)
def arrLoop (b : Bytes) (f : Nat) (len : Nat) (elems : NodeList) (e : Nat) : Nat → Node × Res
| 0 => (.arr len elems e, .ok (some e))
| k+1 =>
    match readHdr b e with
    | none => (.arr len elems e, .err)
    | some h =>
      match Node.finish b f (mkNode h) with
      | (_, .err) => (.arr len elems e, .err)
      | (n', .ok oe) =>
        let e' := match oe, h with
          | some x, _ => x
          | none, .scalar _ x => x
          | none, .arr _ x => x   -- unreachable (expect)
        arrLoop b f len (.snoc elems n') e' k
termination_by k => (f, k + 1)
end

/-! invariant -/
mutual
/-- `Done b pos n e`: n is a complete, correct view of the value at pos, which ends at e -/
inductive Done (b : Bytes) : Nat → Node → Nat → Prop
| scalar {pos v e} : readHdr b pos = some (.scalar v e) → Done b pos (.scalar v) e
| arr {pos len body elems e} : readHdr b pos = some (.arr len body) → elems.length = len →
    Pre b body elems e → Done b pos (.arr len elems e) e
/-- all of `elems` are Done and consecutive from p0; the next child starts at s -/
inductive Pre (b : Bytes) : Nat → NodeList → Nat → Prop
| nil {p0} : Pre b p0 .nil p0
| snoc {p0 init s n s'} : Pre b p0 init s → Done b s n s' → Pre b p0 (.snoc init n) s'
end

inductive Inv (b : Bytes) : Nat → Node → Prop
| scalar {pos v e} : readHdr b pos = some (.scalar v e) → Inv b pos (.scalar v)
| closed {pos len body elems e} : readHdr b pos = some (.arr len body) → elems.length ≤ len →
    Pre b body elems e → Inv b pos (.arr len elems e)
| opened {pos len body init last e} : readHdr b pos = some (.arr len body) → init.length + 1 ≤ len →
    Pre b body init e → last.isComposite = true → Inv b e last → Inv b pos (.arr len (.snoc init last) e)

end L1
