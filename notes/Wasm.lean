/-! prototype: mini-Wasm semantics for trampoline glue (C04) -/
namespace MW

inductive V | i32 (x : BitVec 32) | i64 (x : BitVec 64) | f64 (x : BitVec 64)
deriving DecidableEq

structure Mem where
  size : Nat                -- bytes
  byte : Nat → UInt8

inductive Instr
| localGet (i : Nat) | localSet (i : Nat) | localTee (i : Nat)
| call (f : Nat)
| i32Load (mem : Nat) (off : Nat)
| i32Add | i32Ne | i64Const (n : BitVec 64) | i64ShrU | i32WrapI64
| memCopy (dst src : Nat)
| ifElse (t e : List Instr)

/-- host (provider) side: behaviour of an imported function: args, provider memory ↦ results, new provider memory -/
structure Func where
  nparams : Nat
  nlocals : Nat           -- extra locals (zero-initialised; types ignored in prototype)
  body    : Option (List Instr)   -- none = import
  name    : String := ""

structure St where
  mems   : List Mem         -- by index
  stack  : List V
  locals : List V

inductive Res (α) | ok (a : α) | trap | fuel
deriving Inhabited

def Mem.copy (d s : Mem) (da sa n : Nat) : Option Mem :=
  if sa + n ≤ s.size ∧ da + n ≤ d.size then
    some { d with byte := fun a => if da ≤ a ∧ a < da + n then s.byte (sa + (a - da)) else d.byte a }
  else none

def Mem.load32 (m : Mem) (a : Nat) : Option (BitVec 32) :=
  if a + 4 ≤ m.size then
    some (BitVec.ofNat 32 ((m.byte a).toNat + (m.byte (a+1)).toNat * 256 + (m.byte (a+2)).toNat * 65536 + (m.byte (a+3)).toNat * 16777216))
  else none

abbrev Host := String → List V → List Mem → Option (List V × List Mem)

mutual
def execList (host : Host) (fs : List Func) (fuel : Nat) : List Instr → St → Res St
| [], s => .ok s
| i :: is, s => match exec host fs fuel i s with
  | .ok s' => execList host fs fuel is s'
  | r => r
def exec (host : Host) (fs : List Func) (fuel : Nat) : Instr → St → Res St
| .localGet i, s => match s.locals[i]? with
  | some v => .ok { s with stack := v :: s.stack } | none => .trap
| .localSet i, s => match s.stack with
  | v :: st => .ok { s with stack := st, locals := s.locals.set i v } | _ => .trap
| .localTee i, s => match s.stack with
  | v :: st => .ok { s with stack := v :: st, locals := s.locals.set i v } | _ => .trap
| .i32Add, s => match s.stack with
  | .i32 b :: .i32 a :: st => .ok { s with stack := .i32 (a + b) :: st } | _ => .trap
| .i32Ne, s => match s.stack with
  | .i32 b :: .i32 a :: st => .ok { s with stack := .i32 (if a ≠ b then 1 else 0) :: st } | _ => .trap
| .i64Const n, s => .ok { s with stack := .i64 n :: s.stack }
| .i64ShrU, s => match s.stack with
  | .i64 b :: .i64 a :: st => .ok { s with stack := .i64 (a >>> (b.toNat % 64)) :: st } | _ => .trap
| .i32WrapI64, s => match s.stack with
  | .i64 a :: st => .ok { s with stack := .i32 (a.truncate 32) :: st } | _ => .trap
| .i32Load m off, s => match s.stack with
  | .i32 a :: st => match s.mems[m]? with
    | some mem => match mem.load32 (a.toNat + off) with
      | some v => .ok { s with stack := .i32 v :: st }
      | none => .trap
    | none => .trap
  | _ => .trap
| .memCopy d sIdx, s => match s.stack with
  | .i32 n :: .i32 sa :: .i32 da :: st =>
    match s.mems[d]?, s.mems[sIdx]? with
    | some dm, some sm => match Mem.copy dm sm da.toNat sa.toNat n.toNat with
      | some dm' => .ok { s with stack := st, mems := s.mems.set d dm' }
      | none => .trap
    | _, _ => .trap
  | _ => .trap
| .ifElse t e, s => match s.stack with
  | .i32 c :: st => if c ≠ 0 then execList host fs fuel t { s with stack := st } else execList host fs fuel e { s with stack := st }
  | _ => .trap
| .call f, s => match fuel with
  | 0 => .fuel
  | fuel+1 => match fs[f]? with
    | none => .trap
    | some fn =>
      if s.stack.length < fn.nparams then .trap else
      let args := (s.stack.take fn.nparams).reverse
      let rest := s.stack.drop fn.nparams
      match fn.body with
      | none => match host fn.name args s.mems with
        | some (rs, mems') => .ok { s with stack := rs.reverse ++ rest, mems := mems' }
        | none => .trap
      | some body =>
        match execList host fs fuel body { mems := s.mems, stack := [], locals := args ++ List.replicate fn.nlocals (.i32 0) } with
        | .ok s' => .ok { s with stack := s'.stack ++ rest, mems := s'.mems }
        | r => r
end
end MW

namespace MW
/-- the emitted glue for shopify_function_output_new_utf8_str, indices as in the consumer.wat snapshot (func 22),
    with fs = [0: provider import, 1: memcpy_to_provider] -/
def fs : List Func :=
  [ { nparams := 1, nlocals := 0, body := none, name := "_shopify_function_output_new_utf8_str" },
    { nparams := 3, nlocals := 0, body := some [.localGet 0, .localGet 1, .localGet 2, .memCopy 0 1] } ]

def glue : List Instr :=
  [.localGet 1, .call 0, .localTee 2, .i64Const 32, .i64ShrU, .i32WrapI64, .localGet 2, .i32WrapI64,
   .localGet 0, .localGet 1, .call 1]

theorem glue_spec (host : Host) (prov guest : Mem) (src len : BitVec 32) (ret : BitVec 64) (prov' : Mem)
    (hh : host "_shopify_function_output_new_utf8_str" [.i32 len] [prov, guest] = some ([.i64 ret], [prov', guest]))
    (hb1 : src.toNat + len.toNat ≤ guest.size) (hb2 : (ret.truncate 32).toNat + len.toNat ≤ prov'.size) :
    ∃ pm, execList host fs 5 glue { mems := [prov, guest], stack := [], locals := [.i32 src, .i32 len, .i64 0] }
      = .ok { mems := [pm, guest], stack := [.i32 ((ret >>> 32).truncate 32)], locals := [.i32 src, .i32 len, .i64 ret] }
      ∧ Mem.copy prov' guest (ret.truncate 32).toNat src.toNat len.toNat = some pm := by
  simp [execList, exec, glue, fs, hh, Mem.copy, hb1, hb2]
end MW
