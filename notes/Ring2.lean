import Ring
