import L1
namespace L1

theorem skip_scalar {b : Bytes} {f pos v e} (h : readHdr b pos = some (.scalar v e)) :
    skip b (f+1) pos = some e := by rw [skip, h]
theorem skip_arr {b : Bytes} {f pos len body} (h : readHdr b pos = some (.arr len body)) :
    skip b (f+1) pos = skipN b f len body := by rw [skip, h]
theorem skip_none {b : Bytes} {f pos} (h : readHdr b pos = none) :
    skip b (f+1) pos = none := by rw [skip, h]
theorem skipN_zero {b : Bytes} {f pos} : skipN b f 0 pos = some pos := by rw [skipN]
theorem skipN_some {b : Bytes} {f k pos e} (h : skip b f pos = some e) :
    skipN b f (k+1) pos = skipN b f k e := by rw [skipN, h]
theorem skipN_none {b : Bytes} {f k pos} (h : skip b f pos = none) :
    skipN b f (k+1) pos = none := by rw [skipN, h]

/-- A: if the eager skip succeeds on a Done node it returns Done's end -/
theorem done_skip_agree {b : Bytes} : ∀ {pos n e}, Done b pos n e → ∀ f x, skip b f pos = some x → x = e := by
  intro pos n e h
  -- mutual induction via the auto-generated recursor
  refine Done.rec (motive_1 := fun pos n e _ => ∀ f x, skip b f pos = some x → x = e)
    (motive_2 := fun p0 elems s _ => ∀ f r x, skipN b f (elems.length + r) p0 = some x → skipN b f r s = some x)
    ?_ ?_ ?_ ?_ h
  · intro pos v e hh f x hs
    cases f with
    | zero => simp [skip] at hs
    | succ f => rw [skip_scalar hh] at hs; simp at hs; exact hs.symm
  · intro pos len body elems e hh hlen hpre ih f x hs
    cases f with
    | zero => simp [skip] at hs
    | succ f =>
      rw [skip_arr hh] at hs
      have := ih f 0 x (by simpa [hlen] using hs)
      rw [skipN_zero] at this; simp at this; exact this.symm
  · intro p0 f r x hs; simpa [NodeList.length] using hs
  · intro p0 init s n s' hpre hdone ih1 ih2 f r x hs
    have h1 : skipN b f (init.length + (r + 1)) p0 = some x := by
      simpa [NodeList.length, Nat.add_assoc, Nat.add_comm 1 r] using hs
    have h2 := ih1 f (r+1) x h1
    cases hsk : skip b f s with
    | none => rw [skipN_none hsk] at h2; simp at h2
    | some y =>
      rw [skipN_some hsk] at h2
      have := ih2 f y hsk
      subst this; exact h2

theorem pre_peel {b : Bytes} {p0 elems s} (h : Pre b p0 elems s) :
    ∀ f r x, skipN b f (elems.length + r) p0 = some x → skipN b f r s = some x := by
  refine Pre.rec (motive_1 := fun pos n e _ => ∀ f x, skip b f pos = some x → x = e)
    (motive_2 := fun p0 elems s _ => ∀ f r x, skipN b f (elems.length + r) p0 = some x → skipN b f r s = some x)
    ?_ ?_ ?_ ?_ h
  · intro pos v e hh f x hs
    exact done_skip_agree (Done.scalar hh) f x hs
  · intro pos len body elems e hh hlen hpre ih f x hs
    exact done_skip_agree (Done.arr hh hlen hpre) f x hs
  · intro p0 f r x hs; simpa [NodeList.length] using hs
  · intro p0 init s n s' hpre hdone ih1 ih2 f r x hs
    have h1 : skipN b f (init.length + (r + 1)) p0 = some x := by
      simpa [NodeList.length, Nat.add_assoc, Nat.add_comm 1 r] using hs
    have h2 := ih1 f (r+1) x h1
    cases hsk : skip b f s with
    | none => rw [skipN_none hsk] at h2; simp at h2
    | some y =>
      rw [skipN_some hsk] at h2
      have := ih2 f y hsk
      subst this; exact h2

end L1
