import Ring
namespace Ring

theorem blit_getElem? (buf xs : List UInt8) (pos i : Nat) (h : pos + xs.length ≤ buf.length) :
    (blit buf pos xs)[i]? = if i < pos then buf[i]? else if i < pos + xs.length then xs[i - pos]? else buf[i]? := by
  unfold blit
  simp only [List.append_assoc, List.getElem?_append, List.length_take, List.getElem?_take, List.getElem?_drop]
  have : min pos buf.length = pos := by omega
  rw [this]
  split
  · simp
  · split
    · simp; intro; omega
    · rename_i h1 h2
      have : pos + xs.length + (i - pos - xs.length) = i := by omega
      simp [this]; intro; omega

theorem lastN_getElem? (n : Nat) (xs : List UInt8) (i : Nat) :
    (lastN n xs)[i]? = xs[xs.length - n + i]? := by
  simp [lastN, List.getElem?_drop]

theorem lastN_length (n : Nat) (xs : List UInt8) : (lastN n xs).length = min n xs.length := by
  simp [lastN]; omega

/-- the abstract content: the ring as an ordered list -/
theorem read_length (l : Logs) (h : Inv l) : l.read.length = l.len := by
  obtain ⟨hc, hb, ho, hl, hlo⟩ := h
  unfold Logs.read
  by_cases hfull : l.len < l.cap
  · have := hlo hfull; simp [hfull, hb]; omega
  · have hlen : l.len = l.cap := by omega
    simp [hfull]
    split
    · simp [hb]; omega
    · simp [hb]; omega

/-- element-wise description of what the host reads -/
theorem read_getElem? (l : Logs) (h : Inv l) (i : Nat) (hi : i < l.len) :
    l.read[i]? = if l.len < l.cap then l.buf[i]? else l.buf[(l.offset + i) % l.cap]? := by
  obtain ⟨hc, hb, ho, hl, hlo⟩ := h
  unfold Logs.read
  by_cases hfull : l.len < l.cap
  · simp [hfull, List.getElem?_take, hi]
  · have hlen : l.len = l.cap := by omega
    simp only [hfull, if_false]
    by_cases ho0 : l.offset = 0
    · simp [ho0, List.getElem?_take, hi, Nat.mod_eq_of_lt (by omega : i < l.cap)]
    · simp only [ho0, if_false]
      simp only [List.getElem?_append, List.length_take, List.length_drop, List.getElem?_take, List.getElem?_drop, hb]
      by_cases hi2 : i < l.cap - l.offset
      · have : (l.offset + i) % l.cap = l.offset + i := Nat.mod_eq_of_lt (by omega)
        simp [this]
        have : i < min (l.cap - l.offset) (l.cap - l.offset) := by omega
        simp [hi2]
      · have hmod : (l.offset + i) % l.cap = l.offset + i - l.cap := by
          rw [Nat.mod_eq_sub_mod (by omega)]; exact Nat.mod_eq_of_lt (by omega)
        have hmin : min (l.cap - l.offset) (l.cap - l.offset) = l.cap - l.offset := by omega
        simp [hmod, hmin, hi2]
        have : i - (l.cap - l.offset) = l.offset + i - l.cap := by omega
        rw [this]
        rw [if_pos (by omega)]

end Ring
