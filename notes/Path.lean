import L1
/-! prototype: handle = path into the lazy tree; lookup / functional update (C01 handle layer) -/
namespace L1

/-- i-th processed child, counted from the front (snoc list stores last-first) -/
def NodeList.get? : NodeList → Nat → Option Node
| .nil, _ => none
| .snoc init last, i => if i = init.length then some last else init.get? i

def NodeList.set : NodeList → Nat → Node → NodeList
| .nil, _, _ => .nil
| .snoc init last, i, n => if i = init.length then .snoc init n else .snoc (init.set i n) last

def Node.child? : Node → Nat → Option Node
| .arr _ elems _, i => elems.get? i
| _, _ => none

def Node.setChild : Node → Nat → Node → Node
| .arr len elems e, i, n => .arr len (elems.set i n) e
| x, _, _ => x

abbrev Path := List Nat

def Node.at? : Node → Path → Option Node
| n, [] => some n
| n, i :: p => match n.child? i with
  | none => none
  | some c => c.at? p

/-- apply a node-local operation at the end of a path, rebuilding the spine -/
def Node.modifyAt (f : Node → Node × α) (dflt : α) : Node → Path → Node × α
| n, [] => f n
| n, i :: p => match n.child? i with
  | none => (n, dflt)
  | some c =>
    let (c', a) := Node.modifyAt f dflt c p
    (n.setChild i c', a)

theorem NodeList.set_length : ∀ (l : NodeList) (i : Nat) (n : Node), (l.set i n).length = l.length
| .nil, _, _ => rfl
| .snoc init last, i, n => by
    simp only [NodeList.set]
    split <;> simp [NodeList.length, NodeList.set_length init]

theorem NodeList.get?_set_same : ∀ (l : NodeList) (i : Nat) (n : Node), i < l.length → (l.set i n).get? i = some n
| .nil, _, _, h => by simp [NodeList.length] at h
| .snoc init last, i, n, h => by
    simp only [NodeList.set]
    split
    · rename_i h1; simp [NodeList.get?, h1]
    · rename_i h1
      simp only [NodeList.get?, NodeList.set_length]
      simp [h1]
      exact NodeList.get?_set_same init i n (by simp [NodeList.length] at h; omega)

-- fun_induction also works on functions over the mutual type
theorem NodeList.get?_lt : ∀ (l : NodeList) (i : Nat) (n : Node), l.get? i = some n → i < l.length := by
  intro l i
  fun_induction NodeList.get? l i <;> simp_all [NodeList.length] <;> omega
end L1
