/-! prototype: log ring buffer (C05) -/
namespace Ring

structure Logs where
  cap    : Nat
  buf    : List UInt8      -- length = cap
  offset : Nat
  len    : Nat

structure Plan where
  srcOff : Nat
  dst1   : Nat          -- offset into buffer
  len1   : Nat
  dst2   : Option Nat   -- none = null
  len2   : Nat
deriving Repr, DecidableEq

def Logs.append (l : Logs) (len0 : Nat) : Logs × Plan :=
  let srcOff := if len0 > l.cap then len0 - l.cap else 0
  let len := if len0 > l.cap then l.cap else len0
  let spaceToEnd := l.cap - l.offset
  if len ≤ spaceToEnd then
    ({ l with len := min (l.len + len) l.cap, offset := (l.offset + len) % l.cap },
     { srcOff, dst1 := l.offset, len1 := len, dst2 := none, len2 := 0 })
  else
    ({ l with len := l.cap, offset := (l.offset + len) % l.cap },
     { srcOff, dst1 := l.offset, len1 := spaceToEnd, dst2 := some 0, len2 := len - spaceToEnd })

/-- overwrite `xs` into `buf` starting at `at` -/
def blit (buf : List UInt8) (pos : Nat) (xs : List UInt8) : List UInt8 :=
  buf.take pos ++ xs ++ buf.drop (pos + xs.length)

def applyPlan (buf : List UInt8) (msg : List UInt8) (p : Plan) : List UInt8 :=
  let b1 := blit buf p.dst1 ((msg.drop p.srcOff).take p.len1)
  match p.dst2 with
  | none => b1
  | some d2 => blit b1 d2 ((msg.drop (p.srcOff + p.len1)).take p.len2)

def Logs.log (l : Logs) (msg : List UInt8) : Logs :=
  let (l', p) := l.append msg.length
  { l' with buf := applyPlan l.buf msg p }

def Logs.read (l : Logs) : List UInt8 :=
  let readOff := if l.len < l.cap then 0 else l.offset
  if readOff = 0 then l.buf.take l.len
  else (l.buf.drop l.offset).take (l.cap - readOff) ++ l.buf.take (l.len - (l.cap - readOff))

def lastN (n : Nat) (xs : List UInt8) : List UInt8 := xs.drop (xs.length - n)

def Inv (l : Logs) : Prop :=
  0 < l.cap ∧ l.buf.length = l.cap ∧ l.offset < l.cap ∧ l.len ≤ l.cap ∧ (l.len < l.cap → l.offset = l.len)

theorem blit_length (buf xs : List UInt8) (pos : Nat) (h : pos + xs.length ≤ buf.length) :
    (blit buf pos xs).length = buf.length := by
  simp [blit]; omega

end Ring
