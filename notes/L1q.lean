import L1p
namespace L1

theorem done_inv {b : Bytes} {pos n e} (h : Done b pos n e) : Inv b pos n := by
  cases h with
  | scalar hh => exact Inv.scalar hh
  | arr hh hl hp => exact Inv.closed hh (by omega) hp

theorem skipN_succ_inv {b : Bytes} {f k s e} (h : skipN b f (k+1) s = some e) :
    ∃ y, skip b f s = some y ∧ skipN b f k y = some e := by
  cases hsk : skip b f s with
  | none => rw [skipN_none hsk] at h; simp at h
  | some y => rw [skipN_some hsk] at h; exact ⟨y, rfl, h⟩

def FinishOK (b : Bytes) (f : Nat) : Prop :=
  ∀ pos n e, Inv b pos n → skip b f pos = some e →
    ∃ n', Node.finish b f n = (n', .ok (if n.isComposite then some e else none)) ∧ Done b pos n' e

theorem loop_done {b : Bytes} {f : Nat} (IH : FinishOK b f) :
    ∀ k len elems p0 s e, Pre b p0 elems s → skipN b f k s = some e →
      ∃ elems', arrLoop b f len elems s k = (.arr len elems' e, .ok (some e)) ∧ Pre b p0 elems' e
        ∧ elems'.length = elems.length + k := by
  intro k
  induction k with
  | zero =>
    intro len elems p0 s e hpre hs
    rw [skipN_zero] at hs; simp at hs; subst hs
    exact ⟨elems, by rw [arrLoop], hpre, rfl⟩
  | succ k ih =>
    intro len elems p0 s e hpre hs
    obtain ⟨y, hy, hrest⟩ := skipN_succ_inv hs
    cases f with
    | zero => simp [skip] at hy
    | succ f =>
      cases hh : readHdr b s with
      | none => rw [skip_none hh] at hy; simp at hy
      | some h =>
        cases h with
        | scalar v x =>
          have hyx : y = x := by rw [skip_scalar hh] at hy; simp at hy; exact hy.symm
          subst hyx
          obtain ⟨n', hfin, hdone⟩ := IH s (.scalar v) y (Inv.scalar hh) hy
          obtain ⟨elems', hl, hp, hlen⟩ := ih len (.snoc elems n') p0 y e (Pre.snoc hpre hdone) hrest
          refine ⟨elems', ?_, hp, by simp [NodeList.length] at hlen; omega⟩
          rw [arrLoop, hh]; simp only [mkNode]; rw [hfin]
          simpa [Node.isComposite] using hl
        | arr l body =>
          obtain ⟨n', hfin, hdone⟩ := IH s (.arr l .nil body) y (Inv.closed hh (by simp [NodeList.length]) Pre.nil) hy
          obtain ⟨elems', hl, hp, hlen⟩ := ih len (.snoc elems n') p0 y e (Pre.snoc hpre hdone) hrest
          refine ⟨elems', ?_, hp, by simp [NodeList.length] at hlen; omega⟩
          rw [arrLoop, hh]; simp only [mkNode]; rw [hfin]
          simpa [Node.isComposite] using hl

theorem finish_done (b : Bytes) : ∀ f, FinishOK b f := by
  intro f
  induction f with
  | zero => intro pos n e _ hs; simp [skip] at hs
  | succ f IH =>
    intro pos n e hinv hs
    cases hinv with
    | scalar hh =>
      rename_i v e0
      rw [skip_scalar hh] at hs; simp at hs; subst hs
      exact ⟨.scalar v, by simp [Node.finish, Node.isComposite], Done.scalar hh⟩
    | closed hh hle hpre =>
      rename_i len body elems e0
      rw [skip_arr hh] at hs
      cases hpre with
      | nil =>
        obtain ⟨elems', hl, hp, hlen⟩ := loop_done IH len len .nil body body e Pre.nil hs
        refine ⟨.arr len elems' e, ?_, Done.arr hh (by simpa [NodeList.length] using hlen) hp⟩
        simp [Node.finish, Node.isComposite, hl]
      | snoc hinit hdone =>
        rename_i init s last
        -- peel the finished prefix `init`
        have hlen1 : init.length + 1 ≤ len := by simpa [NodeList.length] using hle
        have hs' : skipN b f (init.length + (len - init.length)) body = some e := by
          rw [show init.length + (len - init.length) = len by omega]; exact hs
        have hpeel := pre_peel hinit f (len - init.length) e hs'
        rw [show len - init.length = (len - (init.length + 1)) + 1 by omega] at hpeel
        obtain ⟨y, hy, hrest⟩ := skipN_succ_inv hpeel
        have hye := done_skip_agree hdone f y hy
        subst hye
        obtain ⟨last', hfin, hdone'⟩ := IH s last y (done_inv hdone) hy
        obtain ⟨elems', hl, hp, hlen⟩ :=
          loop_done IH (len - (init.length + 1)) len (.snoc init last') body y e (Pre.snoc hinit hdone') hrest
        refine ⟨.arr len elems' e, ?_, Done.arr hh (by simp [NodeList.length] at hlen; omega) hp⟩
        have : (if last.isComposite = true then some y else none).getD y = y := by split <;> rfl
        simp only [Node.finish, hfin, this, hl]
        simp [Node.isComposite]
    | opened hh hle hinit hcomp hlast =>
      rename_i len body init last e0
      rw [skip_arr hh] at hs
      have hs' : skipN b f (init.length + (len - init.length)) body = some e := by
        rw [show init.length + (len - init.length) = len by omega]; exact hs
      have hpeel := pre_peel hinit f (len - init.length) e hs'
      rw [show len - init.length = (len - (init.length + 1)) + 1 by omega] at hpeel
      obtain ⟨y, hy, hrest⟩ := skipN_succ_inv hpeel
      obtain ⟨last', hfin, hdone'⟩ := IH e0 last y hlast hy
      obtain ⟨elems', hl, hp, hlen⟩ :=
        loop_done IH (len - (init.length + 1)) len (.snoc init last') body y e (Pre.snoc hinit hdone') hrest
      refine ⟨.arr len elems' e, ?_, Done.arr hh (by simp [NodeList.length] at hlen; omega) hp⟩
      simp only [Node.finish, hfin, hcomp, if_true, Option.getD_some, hl]
      simp [Node.isComposite]

#print axioms finish_done
end L1
