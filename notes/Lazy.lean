/-! prototype: lazy reader model skeleton (C01/C08) -/
namespace LazyM

inductive Err | read | notObj | notIdx | oob | decode
deriving Repr, DecidableEq

abbrev Bytes := Array UInt8

inductive Hdr
| null | bool (b : Bool) | num (bits : UInt64) | str (ptr len : Nat)
| arr (len : Nat) | map (len : Nat)
deriving Repr, DecidableEq

def be (b : Bytes) (pos n : Nat) : Option Nat :=
  if pos + n ≤ b.size then
    some ((List.range n).foldl (fun acc i => acc * 256 + (b[pos + i]!).toNat) 0)
  else none

/-- `LazyValueRef::new` minus allocation: header at `pos`; second component = end if scalar -/
def readHdr (b : Bytes) (pos : Nat) : Except Err (Hdr × Option Nat) :=
  match b[pos]? with
  | none => .error .read
  | some m =>
    let p := pos + 1
    let m := m.toNat
    if m = 0xc0 then .ok (.null, some p)
    else if m = 0xc2 then .ok (.bool false, some p)
    else if m = 0xc3 then .ok (.bool true, some p)
    else if m < 0x80 then .ok (.num m.toUInt64, some p)   -- placeholder for f64 conversion
    else if 0xa0 ≤ m ∧ m < 0xc0 then .ok (.str p (m - 0xa0), some (p + (m - 0xa0)))
    else if 0x90 ≤ m ∧ m < 0xa0 then .ok (.arr (m - 0x90), none)
    else if 0x80 ≤ m ∧ m < 0x90 then .ok (.map (m - 0x80), none)
    else if m = 0xdc then match be b p 2 with
      | some n => .ok (.arr n, none)   -- NB: real code: endPos = p+2
      | none => .error .read
    else .error .read

def hdrEnd (b : Bytes) (pos : Nat) : Nat := -- position after container header
  match b[pos]? with
  | some m => if m.toNat = 0xdc then pos + 3 else pos + 1
  | none => pos + 1

mutual
inductive Node
| null | bool (b : Bool) | num (bits : UInt64) | str (ptr len : Nat)
| arr (len : Nat) (elems : NodeList) (endPos : Nat)
| obj (len : Nat) (elems : PairList) (endPos : Nat)
inductive NodeList
| nil | snoc (init : NodeList) (last : Node)     -- reversed: last processed at head
inductive PairList
| nil | snoc (init : PairList) (k v : Node)
end

def NodeList.length : NodeList → Nat
| .nil => 0 | .snoc i _ => i.length + 1

def mkNode (b : Bytes) (pos : Nat) (h : Hdr) : Node :=
  match h with
  | .null => .null | .bool x => .bool x | .num x => .num x | .str p l => .str p l
  | .arr l => .arr l .nil (hdrEnd b pos)
  | .map l => .obj l .nil (hdrEnd b pos)

/-- result of finish: updated node + (error | optional end) -/
abbrev FinRes := Except Err (Option Nat)

mutual
/-- finish_processing; fuel bounds *new* nodes created (each consumes ≥1 input byte) -/
def Node.finish (b : Bytes) (fuel : Nat) : Node → Node × FinRes
| .arr len elems e =>
    -- step 1: finish last processed element
    match elems with
    | .nil => arrLoop b fuel len .nil e (len)
    | .snoc init last =>
      match last.finish b fuel with
      | (last', .error er) => (.arr len (.snoc init last') e, .error er)
      | (last', .ok oe) =>
        let e' := oe.getD e
        arrLoop b fuel len (.snoc init last') e' (len - (NodeList.snoc init last').length)
| n => (n, .ok none)

def arrLoop (b : Bytes) (fuel : Nat) (len : Nat) (elems : NodeList) (e : Nat) : Nat → Node × FinRes
| 0 => (.arr len elems e, .ok (some e))
| k+1 =>
  match fuel with
  | 0 => (.arr len elems e, .error .read)
  | fuel+1 =>
  match readHdr b e with
  | .error er => (.arr len elems e, .error er)
  | .ok (h, oend) =>
    let n := mkNode b e h
    match n.finish b fuel with
    | (n', .error er) => (.arr len elems e, .error er)     -- NB: real code drops lazy_value on error
    | (n', .ok oe) =>
      match oe.orElse (fun _ => oend) with
      | none => (.arr len elems e, .error .read)  -- expect() panic in real code; unreachable
      | some e' => arrLoop b fuel len (.snoc elems n') e' k
end

end LazyM
