/-! prototype: bit-level double model (C10/C01/C09) -/
namespace F64m

/-- unsigned magnitude → (biased exponent field, 52-bit mantissa field); round to nearest even -/
def encMag (n : Nat) : Nat × Nat :=
  if n = 0 then (0, 0) else
  let k := Nat.log2 n                      -- 2^k ≤ n < 2^(k+1)
  if k ≤ 52 then (1023 + k, n * 2^(52 - k) - 2^52)
  else
    let sh := k - 52
    let q := n / 2^sh                      -- 53-bit
    let r := n % 2^sh
    let half := 2^(sh - 1)
    let q' := if r > half ∨ (r = half ∧ q % 2 = 1) then q + 1 else q
    if q' = 2^53 then (1023 + k + 1, 0) else (1023 + k, q' - 2^52)

def ofInt (z : Int) : Nat :=    -- the 64 bits
  let (e, m) := encMag z.natAbs
  (if z < 0 then 2^63 else 0) + e * 2^52 + m

def signBit (x : Nat) : Bool := x / 2^63 % 2 = 1
def expF (x : Nat) : Nat := x / 2^52 % 2^11
def manF (x : Nat) : Nat := x % 2^52
def isNaN (x : Nat) : Bool := expF x = 2047 ∧ manF x ≠ 0
def isInf (x : Nat) : Bool := expF x = 2047 ∧ manF x = 0

/-- finite value as (signed significand, exponent): value = s * 2^e -/
def val (x : Nat) : Int × Int :=
  let m := if expF x = 0 then manF x else 2^52 + manF x
  let e : Int := (if expF x = 0 then 1 else expF x : Nat) - 1075
  ((if signBit x then -(m : Int) else m), e)

/-- integer value if the double is an integer -/
def toInt? (x : Nat) : Option Int :=
  if expF x = 2047 then none else
  let (s, e) := val x
  if e ≥ 0 then some (s * 2^e.toNat)
  else if s % (2^(-e).toNat : Int) = 0 then some (s / (2^(-e).toNat : Int)) else none

#eval ofInt 9223372036854775807 == 0x43E0000000000000
#eval ofInt (-9223372036854775808) == 0xC3E0000000000000
#eval ofInt 1 == 0x3FF0000000000000
#eval ofInt 18446744073709551615 == 0x43F0000000000000
#eval ofInt 9007199254740993 == 0x4340000000000000   -- 2^53+1 → ties to even 2^53
#eval ofInt 9007199254740995 == 0x4340000000000002   -- 2^53+3 → 2^53+4
#eval toInt? (ofInt 2147483647)
#eval toInt? (ofInt (-7))
#eval toInt? 0x3FE0000000000000  -- 0.5

theorem max_i64 : toInt? (ofInt 9223372036854775807) = some 9223372036854775808 := by decide
theorem max_u64 : toInt? (ofInt 18446744073709551615) = some 18446744073709551616 := by decide
theorem max_i32 : toInt? (ofInt 2147483647) = some 2147483647 := by decide

end F64m
