/-! prototype: write state machine (C03) vs zipper spec -/
namespace W

inductive WR | ok | io | expectedKey | objLen | already | notObj | notFinished | arrLen | notArr
deriving DecidableEq, Repr

inductive St
| start | obj (length numInserted : Nat) | arr (length numInserted : Nat) | done
deriving DecidableEq, Repr

inductive Op
| scalar            -- bool/null/i32/f64: "non-string scalar"
| str
| startObj (n : Nat) | finishObj | startArr (n : Nat) | finishArr
deriving DecidableEq, Repr

structure M where
  st : St
  stack : List St      -- head = innermost parent
deriving DecidableEq, Repr

def objWriteString (l n : Nat) : WR × Nat := if n / 2 ≥ l then (.objLen, n) else (.ok, n + 1)
def objWriteNonString (n : Nat) : WR × Nat := if n % 2 = 0 then (.expectedKey, n) else (.ok, n + 1)
def arrWrite (l n : Nat) : WR × Nat := if n ≥ l then (.arrLen, n) else (.ok, n + 1)

def startContainer (m : M) (new : St) : M × WR :=
  match m.st with
  | .start => ({ m with st := new }, .ok)
  | .obj l n => match objWriteNonString n with
    | (.ok, n') => ({ st := new, stack := .obj l n' :: m.stack }, .ok)
    | (e, _) => (m, e)
  | .arr l n => match arrWrite l n with
    | (.ok, n') => ({ st := new, stack := .arr l n' :: m.stack }, .ok)
    | (e, _) => (m, e)
  | .done => (m, .already)

def step (m : M) : Op → M × WR
| .scalar => match m.st with
  | .start => ({ m with st := .done }, .ok)
  | .obj l n => match objWriteNonString n with
    | (.ok, n') => ({ m with st := .obj l n' }, .ok) | (e, _) => (m, e)
  | .arr l n => match arrWrite l n with
    | (.ok, n') => ({ m with st := .arr l n' }, .ok) | (e, _) => (m, e)
  | .done => (m, .already)
| .str => match m.st with
  | .start => ({ m with st := .done }, .ok)
  | .obj l n => match objWriteString l n with
    | (.ok, n') => ({ m with st := .obj l n' }, .ok) | (e, _) => (m, e)
  | .arr l n => match arrWrite l n with
    | (.ok, n') => ({ m with st := .arr l n' }, .ok) | (e, _) => (m, e)
  | .done => (m, .already)
| .startObj k => startContainer m (.obj k 0)
| .startArr k => startContainer m (.arr k 0)
| .finishObj => match m.st with
  | .obj l n => if n ≠ l * 2 then (m, .objLen) else
      match m.stack with
      | [] => ({ st := .done, stack := [] }, .ok)
      | p :: ps => ({ st := p, stack := ps }, .ok)
  | _ => (m, .notObj)
| .finishArr => match m.st with
  | .arr l n => if n ≠ l then (m, .arrLen) else
      match m.stack with
      | [] => ({ st := .done, stack := [] }, .ok)
      | p :: ps => ({ st := p, stack := ps }, .ok)
  | _ => (m, .notArr)

/-! ### spec: grammar of documents as a zipper -/
inductive Doc | scalar | str | arr (xs : List Doc) | obj (kvs : List (Unit × Doc))   -- payloads elided in prototype

inductive Frame
| arr (len : Nat) (done : List Doc)
| obj (len : Nat) (done : List (Unit × Doc)) (pendingKey : Bool)

inductive Z | empty | open_ (fs : List Frame) | complete (d : Doc)

/-- what the grammar allows next -/
def Frame.acceptsValue : Frame → Bool → Bool   -- second arg: value is a string
| .arr len d, _ => d.length < len
| .obj len d false, isStr => isStr && d.length < len       -- key position: must be string and room
| .obj _ _ true, _ => true                                  -- value position
end W
